// Package agent is a process hosting sqlittle handles for the multi-process
// world: a synchronous line-JSON server. Operations run in a goroutine that is
// parked at yield points (pager events, callback invocations, return) and
// released one step at a time by the scheduler process; exactly one goroutine
// is runnable at any time.
package agent

import (
	"bufio"
	"context"
	sqldriver "database/sql/driver"
	"encoding/json"
	"fmt"
	"io"
	"os"
	"os/exec"
	"runtime/debug"

	"github.com/alicebob/sqlittle"
	sdb "github.com/alicebob/sqlittle/db"
	drv "github.com/alicebob/sqlittle/driver"

	"verif/ops"
	"verif/pg"
	"verif/sq"
)

type Req struct {
	Cmd    string   `json:"cmd"` // ping open start resume close quit
	H      string   `json:"h"`
	Path   string   `json:"path"`
	Cache  int      `json:"cache"`
	Kind   string   `json:"kind"`
	Table  string   `json:"table"`
	Index  string   `json:"index"`
	Cols   []string `json:"cols"`
	Rowid  int64    `json:"rowid"`
	Key    [][]string `json:"key"`
	Lock   bool     `json:"lock"`
	StopAt int      `json:"stop_at"`  // callback asks to stop after this many rows
	PanicAt int     `json:"panic_at"` // callback panics at this row (1-based)
	FailRead int    `json:"fail_read"` // k-th page read of the op returns an error
	CancelAt int    `json:"cancel_at"` // drvselect: cancel the context after this many rows
	NestAt int      `json:"nest_at"`   // the callback of this row (1-based) calls Columns() on the SAME handle
	Until  string   `json:"until"`    // resume until: any | callback | lock | return
}

type Event struct {
	Kind  string `json:"kind"` // start lock-ok lock-fail unlock page callback close reserved returned
	N     int    `json:"n"`
	Err   string `json:"err,omitempty"`
	// for "returned"
	Rows   [][][]string `json:"rows,omitempty"`
	Calls  int          `json:"calls,omitempty"`
	Panic  string       `json:"panic,omitempty"`
	NilRow bool         `json:"nil_row,omitempty"`
	Trace  []string     `json:"trace,omitempty"` // every pager event of the op, in order
	OK     bool         `json:"ok"`
	Pid    int          `json:"pid,omitempty"`
	Skipped int         `json:"skipped,omitempty"`
	Pages  int          `json:"pages"`  // page reads so far in this operation
	Locked bool         `json:"locked"` // between lock-ok and unlock, as seen by the tracing pager
	LockOutcome string  `json:"lock_outcome"` // "", "ok" or "fail": the latest lock attempt of this operation
	LockEvents  int     `json:"lock_events"`  // lock attempts so far in this operation
}

type handle struct {
	lockEvents  int
	lockOutcome string
	pages  int
	locked bool
	d      *sqlittle.DB
	tr     *pg.Trace
	events chan Event    // from the op goroutine
	resume chan struct{} // to the op goroutine
	busy   bool
	trace  []string
	nested bool // inside a nested call made by the callback: its pager events are not reported
}

func (h *handle) park(ev Event) {
	ev.Pages, ev.Locked, ev.LockOutcome, ev.LockEvents = h.pages, h.locked, h.lockOutcome, h.lockEvents
	h.events <- ev
	<-h.resume
}

type injectedPanic struct{}

func debugStack() string { return string(debug.Stack()) }

// Main is the agent's server loop.
func Main() int {
	in := bufio.NewReaderSize(os.Stdin, 1<<20)
	out := bufio.NewWriter(os.Stdout)
	handles := map[string]*handle{}
	reply := func(ev Event) {
		b, _ := json.Marshal(ev)
		out.Write(b)
		out.WriteByte('\n')
		out.Flush()
	}
	for {
		line, err := in.ReadBytes('\n')
		if err != nil {
			return 0
		}
		var rq Req
		if err := json.Unmarshal(line, &rq); err != nil {
			reply(Event{Kind: "error", Err: err.Error()})
			continue
		}
		switch rq.Cmd {
		case "quit":
			return 0
		case "ping":
			reply(Event{Kind: "pong", OK: true, Pid: os.Getpid()})
		case "open":
			fp, err := sdb.VerifFilePager(rq.Path)
			if err != nil {
				reply(Event{Kind: "open", Err: err.Error()})
				continue
			}
			h := &handle{events: make(chan Event), resume: make(chan struct{})}
			tr := &pg.Trace{P: fp, Name: rq.H}
			h.tr = tr
			low, err := sdb.VerifOpen(tr, rq.Path+"-journal")
			if err != nil {
				tr.Close()
				reply(Event{Kind: "open", Err: err.Error()})
				continue
			}
			h.d = sqlittle.VerifWrap(low)
			if rq.Cache > 0 {
				low.VerifSetCachePages(rq.Cache)
			}
			handles[rq.H] = h
			reply(Event{Kind: "open", OK: true})
		case "close":
			h := handles[rq.H]
			if h == nil {
				reply(Event{Kind: "close", Err: "no such handle"})
				continue
			}
			if h.busy {
				// close while an operation is parked (a sibling action): allowed
			}
			err := h.d.Close()
			if !h.busy {
				delete(handles, rq.H)
			}
			e := Event{Kind: "close", OK: err == nil}
			if err != nil {
				e.Err = err.Error()
			}
			reply(e)
		case "start":
			h := handles[rq.H]
			if h == nil || h.busy {
				reply(Event{Kind: "error", Err: "no such handle or busy"})
				continue
			}
			h.busy = true
			h.trace = nil
			h.pages = 0
			h.locked = false
			h.lockOutcome = ""
			h.lockEvents = 0
			h.tr.Reads = 0
			h.tr.FailAt = rq.FailRead
			rq := rq
			h.tr.Event = func(kind string, n int, err error) {
				if h.nested {
					return
				}
				e := Event{Kind: kind, N: n}
				if err != nil {
					e.Err = err.Error()
				}
				switch kind {
				case "page":
					h.pages++
					h.trace = append(h.trace, fmt.Sprintf("page %d", n))
				case "lock-ok":
					h.locked = true
					h.lockOutcome = "ok"
					h.lockEvents++
					h.trace = append(h.trace, kind)
				case "lock-fail":
					h.lockOutcome = "fail"
					h.lockEvents++
					h.trace = append(h.trace, kind)
				case "unlock":
					h.locked = false
					h.trace = append(h.trace, kind)
				default:
					h.trace = append(h.trace, kind)
				}
				h.park(e)
			}
			go func() {
				op := ops.Op{Kind: rq.Kind, Table: rq.Table, Index: rq.Index, Cols: rq.Cols, Rowid: rq.Rowid, Lock: rq.Lock, StopAt: rq.StopAt}
				if rq.Key != nil {
					k, _ := sq.DecRow(rq.Key)
					op.Key = sqlittle.Key(k)
				}
				h.park(Event{Kind: "start"})
				if rq.Kind == "drvselect" {
					// through the database/sql driver's Stmt/Rows on this handle: the producer
					// goroutine parks at pager events, the consumer (this goroutine) at every row
					ev := Event{Kind: "returned"}
					func() {
						defer func() {
							if r := recover(); r != nil {
								ev.Panic = fmt.Sprintf("%v | %s", r, debugStack())
							}
						}()
						cols := "*"
						if len(rq.Cols) > 0 {
							cols = ""
							for i, c := range rq.Cols {
								if i > 0 {
									cols += ", "
								}
								cols += `"` + c + `"`
							}
						}
						stmt := drv.VerifStatement(h.d, "SELECT "+cols+" FROM "+rq.Table)
						ctx, cancel := context.WithCancel(context.Background())
						defer cancel()
						rowsI, err := stmt.QueryContext(ctx, nil)
						if err != nil {
							ev.Err = err.Error()
							return
						}
						n := 0
						var ferr error
						for {
							if rq.StopAt > 0 && n >= rq.StopAt {
								break
							}
							if rq.CancelAt > 0 && n >= rq.CancelAt {
								cancel()
								break
							}
							dest := make([]sqldriver.Value, len(rowsI.Columns()))
							if err := rowsI.Next(dest); err != nil {
								if err != io.EOF {
									ferr = err
								}
								break
							}
							er := make([][]string, len(dest))
							for i, v := range dest {
								er[i] = sq.EncVal(v)
							}
							ev.Rows = append(ev.Rows, er)
							n++
							// the consumer does not park: only the producer goroutine is ever
							// parked (at pager events), so exactly one goroutine decides the order
						}
						cerr := rowsI.Close()
						if ferr == nil {
							ferr = cerr
						}
						if ferr != nil {
							ev.Err = ferr.Error()
						}
						ev.Calls = n
					}()
					ev.OK = ev.Err == ""
					ev.Trace = h.trace
					h.tr.Event = nil
					h.busy = false
					ev.Pages, ev.Locked, ev.LockOutcome, ev.LockEvents = h.pages, h.locked, h.lockOutcome, h.lockEvents
					h.events <- ev
					return
				}
				res := ops.Run(h.d, op, func(i int) {
					h.trace = append(h.trace, "callback")
					h.park(Event{Kind: "callback", N: i})
					if rq.NestAt > 0 && i+1 == rq.NestAt {
						// a lookup from inside the row callback, on the same handle: not
						// supported (it fails with "trying to lock a locked lock"), but whatever it
						// does it must leave the running call's lock alone
						h.nested = true
						func() {
							defer func() { recover() }()
							h.d.Columns(rq.Table)
						}()
						h.nested = false
					}
					if rq.PanicAt > 0 && i+1 == rq.PanicAt {
						// passes through sqlittle (its deferred unlock must run)
						panic(injectedPanic{})
					}
				})
				if _, ok := res.Panic.(injectedPanic); ok {
					res.Panic = "injected"
				} else if res.Panic != nil {
					res.Panic = fmt.Sprintf("%v | %s", res.Panic, res.Stack)
				}
				ev := Event{Kind: "returned", Calls: res.Calls, NilRow: res.NilRow, Trace: h.trace, OK: res.Err == nil}
				if res.Err != nil {
					ev.Err = res.Err.Error()
				}
				if res.Panic != nil {
					ev.Panic = fmt.Sprint(res.Panic)
				}
				for _, r := range res.Rows {
					er := make([][]string, len(r))
					for i, v := range r {
						er[i] = sq.EncVal(v)
					}
					ev.Rows = append(ev.Rows, er)
				}
				h.tr.Event = nil
				h.busy = false
				ev.Pages, ev.Locked, ev.LockOutcome, ev.LockEvents = h.pages, h.locked, h.lockOutcome, h.lockEvents
				h.events <- ev
			}()
			reply(<-h.events)
		case "resume":
			h := handles[rq.H]
			if h == nil || !h.busy {
				reply(Event{Kind: "error", Err: "handle not in an operation"})
				continue
			}
			skipped := 0
			for {
				h.resume <- struct{}{}
				ev := <-h.events
				stop := true
				switch rq.Until {
				case "callback":
					stop = ev.Kind == "callback" || ev.Kind == "returned"
				case "lock":
					stop = ev.Kind != "page" && ev.Kind != "callback"
				case "return":
					stop = ev.Kind == "returned"
				}
				if stop {
					ev.Skipped = skipped
					reply(ev)
					break
				}
				skipped++
			}
		default:
			reply(Event{Kind: "error", Err: "unknown command " + rq.Cmd})
		}
	}
}

// Client is the scheduler's side of one agent process.
type Client struct {
	cmd *exec.Cmd
	in  io.WriteCloser
	out *bufio.Reader
	Pid int
}

func Start(self string) (*Client, error) {
	cmd := exec.Command(self, "agent")
	cmd.Stderr = os.Stderr
	in, err := cmd.StdinPipe()
	if err != nil {
		return nil, err
	}
	out, err := cmd.StdoutPipe()
	if err != nil {
		return nil, err
	}
	if err := cmd.Start(); err != nil {
		return nil, err
	}
	c := &Client{cmd: cmd, in: in, out: bufio.NewReaderSize(out, 1<<20)}
	ev, err := c.Call(Req{Cmd: "ping"})
	if err != nil {
		return nil, err
	}
	c.Pid = ev.Pid
	return c, nil
}

func (c *Client) Call(rq Req) (*Event, error) {
	b, _ := json.Marshal(rq)
	b = append(b, '\n')
	if _, err := c.in.Write(b); err != nil {
		return nil, fmt.Errorf("agent write: %w", err)
	}
	line, err := c.out.ReadBytes('\n')
	if err != nil {
		return nil, fmt.Errorf("agent read: %w", err)
	}
	ev := &Event{}
	if err := json.Unmarshal(line, ev); err != nil {
		return nil, err
	}
	if ev.Kind == "error" {
		return ev, fmt.Errorf("agent: %s", ev.Err)
	}
	return ev, nil
}

func (c *Client) Close() {
	if c == nil || c.cmd == nil {
		return
	}
	fmt.Fprintln(c.in, `{"cmd":"quit"}`)
	c.in.Close()
	c.cmd.Wait()
	c.cmd = nil
}

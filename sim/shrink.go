package sim

import "time"

// Shrink minimises a choice sequence while test keeps reporting the same
// violation signature. test returns (reproduced, normalised sequence used).
func Shrink(choices []uint32, test func([]uint32) (bool, []uint32), maxRuns int, maxTime time.Duration) ([]uint32, int) {
	start := time.Now()
	runs := 0
	cur := append([]uint32(nil), choices...)
	try := func(cand []uint32) bool {
		if runs >= maxRuns || time.Since(start) > maxTime {
			return false
		}
		runs++
		ok, norm := test(cand)
		if ok {
			// strip trailing zeros: replay pads with zeros anyway
			for len(norm) > 0 && norm[len(norm)-1] == 0 {
				norm = norm[:len(norm)-1]
			}
			if less(norm, cur) {
				cur = append([]uint32(nil), norm...)
				return true
			}
		}
		return false
	}
	exhausted := func() bool { return runs >= maxRuns || time.Since(start) > maxTime }
	try(cur) // normalise
	for progress := true; progress && !exhausted(); {
		progress = false
		// delete blocks
		for size := len(cur) / 2; size >= 1 && !exhausted(); size /= 2 {
			for i := len(cur) - size; i >= 0 && !exhausted(); {
				cand := append(append([]uint32(nil), cur[:i]...), cur[i+size:]...)
				if try(cand) {
					progress = true
					if i > len(cur)-size {
						i = len(cur) - size
					}
				} else {
					i -= size
				}
			}
		}
		// zero blocks
		for size := len(cur) / 2; size >= 1 && !exhausted(); size /= 2 {
			for i := 0; i+size <= len(cur) && !exhausted(); i += size {
				if i+size > len(cur) {
					break
				}
				allz := true
				for _, v := range cur[i : i+size] {
					if v != 0 {
						allz = false
					}
				}
				if allz {
					continue
				}
				cand := append([]uint32(nil), cur...)
				for j := i; j < i+size; j++ {
					cand[j] = 0
				}
				if try(cand) {
					progress = true
				}
			}
		}
		// lower single values
		for i := 0; i < len(cur) && !exhausted(); i++ {
			for i < len(cur) && cur[i] > 0 && !exhausted() {
				cand := append([]uint32(nil), cur...)
				cand[i] = cur[i] / 2
				if try(cand) {
					progress = true
					continue
				}
				if i >= len(cur) {
					break
				}
				cand = append([]uint32(nil), cur...)
				cand[i] = cur[i] - 1
				if try(cand) {
					progress = true
					continue
				}
				break
			}
		}
	}
	return cur, runs
}

// shortlex order
func less(a, b []uint32) bool {
	if len(a) != len(b) {
		return len(a) < len(b)
	}
	for i := range a {
		if a[i] != b[i] {
			return a[i] < b[i]
		}
	}
	return false
}

package sim

import (
	"testing"
	"bufio"
	"encoding/json"
	"fmt"
	"os"
	"os/exec"
	"path/filepath"
	"regexp"
	"runtime"
	"sort"
	"strconv"
	"strings"
	"sync"
	"time"
)

// Prop describes one property's check.
type Prop struct {
	ID          string
	Engine      string
	Level       string // evidence level
	Rule        string // how cases are generated, what counts as non-trivial
	Runs        map[string]int
	Fn          RunFn
	NewEnv      func(tier string) (interface{}, func(), error)
	MaxRunSecs  int
	Real, Stub  []string
	Assumptions []string
	// Vacuity is evaluated on the merged stats before the check may exit 0.
	Vacuity func(stats map[string]int64, runs int, tier string) error
	// Classify may refine a violation into a known-finding signature by
	// counterfactual replay; it gets a function re-running the choices with a cfg.
	Classify func(v *Violation, rerun func(cfg map[string]string) *RunResult) string
	Exhaustive bool
	// DeathSig classifies the death of the worker process during a run (fatal
	// runtime error, unrecoverable panic in a goroutine of the system under
	// test, watchdog). Non-empty = this is a violation with that signature.
	DeathSig func(stderrTail string, hung bool) string
}

var Registry = map[string]*Prop{}

// T is the *testing.T of the hosting test binary (for testing/synctest).
var T *testing.T

// Extra sub-commands of the binary (child processes of checks).
var Extra = map[string]func([]string) int{}

func Register(p *Prop) { Registry[p.ID] = p }

func envInt(name string, def int) int {
	if s := os.Getenv(name); s != "" {
		if n, err := strconv.Atoi(s); err == nil {
			return n
		}
	}
	return def
}

func Seed() uint64 {
	if s := os.Getenv("VERIF_SEED"); s != "" {
		if n, err := strconv.ParseUint(s, 10, 64); err == nil {
			return n
		}
		if n, err := strconv.ParseInt(s, 10, 64); err == nil {
			return uint64(n)
		}
	}
	return 1
}

// ---------------------------------------------------------------- worker

// WorkerMain executes the runs idx ≡ shard (mod nshards), or an explicit list.
func WorkerMain(p *Prop, tier string, seed uint64, shard, nshards int, only []int) int {
	env, closer, err := p.NewEnv(tier)
	if err != nil {
		fmt.Printf("T %s\n", jsonStr("env: "+err.Error()))
		return 2
	}
	defer closer()
	out := bufio.NewWriter(os.Stdout)
	defer out.Flush()
	// safety net for the sandbox: a run that eats memory kills only this worker
	capMB := envInt("VERIF_MEMCAP_MB", 6144)
	go func() {
		var ms runtime.MemStats
		for {
			time.Sleep(250 * time.Millisecond)
			runtime.ReadMemStats(&ms)
			if ms.Sys > uint64(capMB)<<20 {
				fmt.Fprintf(os.Stderr, "worker memory cap (%d MiB) exceeded\n", capMB)
				os.Exit(7)
			}
		}
	}()
	n := p.Runs[tier]
	var idxs []int
	if only != nil {
		idxs = only
	} else {
		for i := shard; i < n; i += nshards {
			idxs = append(idxs, i)
		}
	}
	for _, i := range idxs {
		fmt.Fprintf(out, "S %d\n", i)
		out.Flush()
		t0 := time.Now()
		res, c := Execute(p.ID, tier, i, NewSrc(Mix(seed, p.ID, i)), env, nil, p.Fn, 0)
		res.WallMs = time.Since(t0).Milliseconds()
		if res.Viol != nil {
			res.Choices = c.Src.Rec
		}
		if i >= 3 && res.Viol == nil {
			res.Sample = nil
			res.Decoded = nil
		}
		b, _ := json.Marshal(res)
		fmt.Fprintf(out, "R %s\n", b)
		out.Flush()
		if res.Trouble != "" {
			return 2
		}
	}
	return 0
}

func jsonStr(s string) string { b, _ := json.Marshal(s); return string(b) }

// ExecuteTimeout is Execute with a watchdog: the run goes on in its goroutine if
// it hangs (it cannot be killed), the caller gets ok=false and must stop using
// in-process re-execution.
func ExecuteTimeout(secs int, prop, tier string, idx int, src *Src, env interface{}, cfg map[string]string, fn RunFn, keepLog int) (*RunResult, *Ctx, bool) {
	type out struct {
		r *RunResult
		c *Ctx
	}
	ch := make(chan out, 1)
	go func() {
		r, c := Execute(prop, tier, idx, src, env, cfg, fn, keepLog)
		ch <- out{r, c}
	}()
	select {
	case o := <-ch:
		return o.r, o.c, true
	case <-time.After(time.Duration(secs) * time.Second):
		return nil, nil, false
	}
}

// ---------------------------------------------------------------- batch

type KnownFindings struct {
	Findings []struct {
		Property  string `json:"property"`
		Signature string `json:"signature"`
		What      string `json:"what"`
	} `json:"findings"`
	Fixed []string `json:"fixed"`
}

func loadKnown(dir string) *KnownFindings {
	k := &KnownFindings{}
	b, err := os.ReadFile(filepath.Join(dir, "known_findings.json"))
	if err == nil {
		json.Unmarshal(b, k)
	}
	return k
}

// LoadKnownSigs makes the known signatures available to runs (they are counted, not fatal).
func LoadKnownSigs(dir string) {
	for _, f := range loadKnown(dir).Findings {
		KnownSigs[f.Signature] = true
	}
}

type ReplayFile struct {
	Property  string            `json:"property"`
	Engine    string            `json:"engine"`
	Tier      string            `json:"tier"`
	Seed      uint64            `json:"seed"`
	Run       int               `json:"run"`
	Choices   []uint32          `json:"choices"`
	Cfg       map[string]string `json:"cfg,omitempty"`
	Signature string            `json:"signature"`
	Violation *Violation        `json:"violation"`
	LogHash   string            `json:"log_hash"`
	Log       []string          `json:"log"`
	Decoded   []string          `json:"decoded_scenario"`
	Sample    interface{}       `json:"sample,omitempty"`
	Env       map[string]string `json:"env"`
	FromSeed  bool              `json:"from_seed,omitempty"` // choices are regenerated from (seed, property, run)
	KnownSig  string            `json:"known_signature,omitempty"` // set by counterfactual classification
	ShrinkRun int               `json:"shrink_executions"`
	OrigLen   int               `json:"original_choice_count"`
}

type workerOut struct {
	results []*RunResult
	died    int // run index during which the worker died, -1 if none
	trouble string
	tail    string
	hung    bool
}

type death struct {
	idx  int
	tail string
	hung bool
}

type tailBuf struct {
	mu  sync.Mutex
	buf []byte
}

func (t *tailBuf) Write(p []byte) (int, error) {
	t.mu.Lock()
	defer t.mu.Unlock()
	t.buf = append(t.buf, p...)
	if len(t.buf) > 1<<17 {
		t.buf = t.buf[len(t.buf)-(1<<16):]
	}
	return len(p), nil
}

func runWorkers(self string, p *Prop, tier string, seed uint64, nshards int, lists [][]int) ([]*RunResult, []death, string) {
	var wg sync.WaitGroup
	outs := make([]*workerOut, nshards)
	perRun := time.Duration(p.MaxRunSecs) * time.Second
	if perRun == 0 {
		perRun = 120 * time.Second
	}
	for w := 0; w < nshards; w++ {
		wg.Add(1)
		go func(w int) {
			defer wg.Done()
			o := &workerOut{died: -1}
			outs[w] = o
			args := []string{"worker", p.ID, tier, strconv.FormatUint(seed, 10), strconv.Itoa(w), strconv.Itoa(nshards)}
			if lists != nil {
				if len(lists[w]) == 0 {
					return
				}
				var ss []string
				for _, i := range lists[w] {
					ss = append(ss, strconv.Itoa(i))
				}
				args = append(args, strings.Join(ss, ","))
			}
			cmd := exec.Command(self, args...)
			cmd.Env = childEnv()
			tb := &tailBuf{}
			cmd.Stderr = tb
			defer func() {
				o.tail = string(tb.buf)
				if o.trouble != "" && o.died < 0 {
					os.Stderr.Write(tb.buf)
				}
			}()
			stdout, err := cmd.StdoutPipe()
			if err != nil {
				o.trouble = err.Error()
				return
			}
			if err := cmd.Start(); err != nil {
				o.trouble = err.Error()
				return
			}
			cur := -1
			lines := make(chan string, 16)
			go func() {
				sc := bufio.NewScanner(stdout)
				sc.Buffer(make([]byte, 1<<20), 1<<28)
				for sc.Scan() {
					lines <- sc.Text()
				}
				close(lines)
			}()
			timer := time.NewTimer(perRun)
			hung := false
		loop:
			for {
				select {
				case ln, ok := <-lines:
					if !ok {
						break loop
					}
					if !timer.Stop() {
						select {
						case <-timer.C:
						default:
						}
					}
					timer.Reset(perRun)
					switch {
					case strings.HasPrefix(ln, "S "):
						cur, _ = strconv.Atoi(ln[2:])
					case strings.HasPrefix(ln, "R "):
						r := &RunResult{}
						if err := json.Unmarshal([]byte(ln[2:]), r); err != nil {
							o.trouble = "bad worker line: " + err.Error()
						} else {
							o.results = append(o.results, r)
							if r.Trouble != "" && o.trouble == "" {
								o.trouble = fmt.Sprintf("run %d: %s", r.Idx, r.Trouble)
							}
						}
						cur = -1
					case strings.HasPrefix(ln, "T "):
						o.trouble = ln[2:]
					}
				case <-timer.C:
					hung = true
					cmd.Process.Kill()
					break loop
				}
			}
			err = cmd.Wait()
			reapScratch(cmd)
			if hung {
				o.hung = true
				o.died = cur
				o.trouble = fmt.Sprintf("watchdog: worker %d made no progress for %v in run %d", w, perRun, cur)
			} else if err != nil && cur >= 0 {
				o.died = cur
				if o.trouble == "" {
					o.trouble = fmt.Sprintf("worker %d died in run %d: %v", w, cur, err)
				}
			} else if err != nil && o.trouble == "" {
				o.trouble = fmt.Sprintf("worker %d: %v", w, err)
			}
		}(w)
	}
	wg.Wait()
	var all []*RunResult
	var died []death
	trouble := ""
	for _, o := range outs {
		if o == nil {
			continue
		}
		all = append(all, o.results...)
		if o.died >= 0 {
			died = append(died, death{o.died, o.tail, o.hung})
			if p.DeathSig != nil {
				continue // judged by the caller
			}
			if o.tail != "" {
				os.Stderr.WriteString(lastLines(o.tail, 40))
			}
		}
		if o.trouble != "" && trouble == "" {
			trouble = o.trouble
		}
	}
	sort.Slice(all, func(i, j int) bool { return all[i].Idx < all[j].Idx })
	return all, died, trouble
}

var sanitizeRe = regexp.MustCompile(`[^A-Za-z0-9_.-]+`)

// BatchMain is `./run <id> <tier>`. Returns the exit code.
func BatchMain(self, verifDir string, p *Prop, tier string) int {
	t0 := time.Now()
	seed := Seed()
	nw := envInt("VERIF_WORKERS", runtime.NumCPU())
	if nw > 16 {
		nw = 16
	}
	n := p.Runs[tier]
	if n == 0 {
		fmt.Fprintf(os.Stderr, "no runs configured for tier %q\n", tier)
		return 2
	}
	if nw > n {
		nw = n
	}
	fmt.Printf("property=%s tier=%s VERIF_SEED=%d runs=%d workers=%d engine=%s\n", p.ID, tier, seed, n, nw, p.Engine)
	results, died, trouble := runWorkers(self, p, tier, seed, nw, nil)
	if trouble != "" {
		fmt.Fprintf(os.Stderr, "HARNESS-TROUBLE property=%s %s\n", p.ID, trouble)
		return 2
	}
	// runs during which the worker process died: judged by the property; the rest
	// of the dead worker's shard is executed by fresh workers
	var deaths []death
	for round := 0; len(died) > 0 && round < 3; round++ {
		deaths = append(deaths, died...)
		have := map[int]bool{}
		for _, r := range results {
			have[r.Idx] = true
		}
		for _, d := range deaths {
			have[d.idx] = true
		}
		lists := make([][]int, nw)
		missing := 0
		for i := 0; i < n; i++ {
			if !have[i] {
				lists[i%nw] = append(lists[i%nw], i)
				missing++
			}
		}
		if missing == 0 {
			died = nil
			break
		}
		more, d2, tr := runWorkers(self, p, tier, seed, nw, lists)
		if tr != "" {
			fmt.Fprintf(os.Stderr, "HARNESS-TROUBLE property=%s %s\n", p.ID, tr)
			return 2
		}
		results = append(results, more...)
		died = d2
	}
	if len(died) > 0 {
		deaths = append(deaths, died...)
	}
	sort.Slice(results, func(i, j int) bool { return results[i].Idx < results[j].Idx })
	deathExit := 0
	knownDeaths := loadKnown(verifDir)
	seenDeathSig := map[string]bool{}
	for _, d := range deaths {
		sig := ""
		if p.DeathSig != nil {
			sig = p.DeathSig(d.tail, d.hung)
		}
		if sig == "" {
			fmt.Fprintf(os.Stderr, "HARNESS-TROUBLE property=%s worker died in run %d (hung=%v):\n%s\n", p.ID, d.idx, d.hung, lastLines(d.tail, 30))
			return 2
		}
		sig = p.ID + ":" + sig
		if seenDeathSig[sig] {
			continue
		}
		seenDeathSig[sig] = true
		// confirm in a fresh process
		confirm := exec.Command(self, "one", p.ID, tier, strconv.FormatUint(seed, 10), strconv.Itoa(d.idx))
		confirm.Env = childEnv()
		cob := &tailBuf{}
		confirm.Stdout = cob
		ccode, chung := runChild(confirm, max(p.MaxRunSecs, 60))
		// a report of the race detector is sound whatever the schedule was (it has no false
		// positives) and need not repeat when the run is executed alone
		raceReport := strings.Contains(sig, ":data-race:") && strings.Contains(d.tail, "WARNING: DATA RACE")
		if ccode == 0 && !chung && !(raceReport && !strings.Contains(string(cob.buf), "VIOLSIG ")) {
			// alone it survives (the worker died of what its runs had accumulated, e.g. the
			// memory cap); if it reports a violation of its own, that is the finding
			out := string(cob.buf)
			if i := strings.Index(out, "VIOLSIG "); i >= 0 {
				vs := firstLineOf(out[i+8:])
				msg := ""
				if j := strings.Index(out, "VIOLMSG "); j >= 0 {
					msg = firstLineOf(out[j+8:])
				}
				if seenDeathSig[vs] {
					continue
				}
				seenDeathSig[vs] = true
				rf := &ReplayFile{Property: p.ID, Engine: p.Engine, Tier: tier, Seed: seed, Run: d.idx, FromSeed: true, Signature: vs,
					Violation: &Violation{Kind: "violation", Sig: vs, Msg: msg}, Env: EnvInfo()}
				dir := filepath.Join(verifDir, "replays", p.ID)
				os.MkdirAll(dir, 0o755)
				path := filepath.Join(dir, sanitizeRe.ReplaceAllString(strings.TrimPrefix(vs, p.ID+":"), "_")+".json")
				b, _ := json.MarshalIndent(rf, "", " ")
				os.WriteFile(path, b, 0o644)
				known2 := false
				for _, f := range knownDeaths.Findings {
					if f.Property == p.ID && f.Signature == vs {
						known2 = true
						fmt.Printf("KNOWN-FINDING: property=%s %s (signature %s)\n", p.ID, f.What, vs)
					}
				}
				if !known2 {
					fmt.Printf("VIOLATION property=%s replay=%s\n  signature: %s\n  %s\n  (the run killed its worker in the batch - %s - and reports this violation when run alone)\n", p.ID, path, vs, msg, sig)
					deathExit = 1
				}
				continue
			}
			fmt.Fprintf(os.Stderr, "HARNESS-TROUBLE property=%s run %d killed its worker (%s) but completes without violation in a fresh process\n", p.ID, d.idx, sig)
			return 2
		}
		rf := &ReplayFile{Property: p.ID, Engine: p.Engine, Tier: tier, Seed: seed, Run: d.idx, FromSeed: true, Signature: sig,
			Violation: &Violation{Kind: "process-death", Sig: sig, Msg: "the process running the system under test died or hung: " + lastLines(d.tail, 6)}, Env: EnvInfo(),
			Log: strings.Split(lastLines(d.tail, 60), "\n")}
		dir := filepath.Join(verifDir, "replays", p.ID)
		os.MkdirAll(dir, 0o755)
		name := sanitizeRe.ReplaceAllString(strings.TrimPrefix(sig, p.ID+":"), "_")
		path := filepath.Join(dir, name+".json")
		b, _ := json.MarshalIndent(rf, "", " ")
		os.WriteFile(path, b, 0o644)
		isKnown := false
		for _, f := range knownDeaths.Findings {
			if f.Property == p.ID && f.Signature == sig {
				isKnown = true
				fmt.Printf("KNOWN-FINDING: property=%s %s (signature %s)\n", p.ID, f.What, sig)
			}
		}
		if !isKnown {
			fmt.Printf("VIOLATION property=%s replay=%s\n  signature: %s\n  process-death in run %d: %s\n", p.ID, path, sig, d.idx, lastLines(d.tail, 3))
			deathExit = 1
		}
	}
	if len(results)+len(deaths) < n {
		if deathExit == 0 {
			fmt.Fprintf(os.Stderr, "HARNESS-TROUBLE property=%s expected %d results, got %d (+%d deaths)\n", p.ID, n, len(results), len(deaths))
			return 2
		}
		fmt.Printf("note: %d runs killed their worker process; %d of %d runs completed\n", len(deaths), len(results), n)
	}
	if len(results) == 0 {
		return deathExit
	}
	n = len(results)
	// determinism sample: re-execute ~2% (at least 2) of the runs in other processes
	nondet := ""
	var recheck []int
	for i := 0; i < n; i++ {
		if i%50 == 7%min(n, 50) || (n < 8 && i < 2) {
			recheck = append(recheck, i)
		}
	}
	if len(recheck) > 0 {
		lists := make([][]int, nw)
		for k, i := range recheck {
			w := (i + 1 + k) % nw // not the worker that ran it first (unless nw==1)
			lists[w] = append(lists[w], i)
		}
		again, _, tr := runWorkers(self, p, tier, seed, nw, lists)
		if tr != "" {
			fmt.Fprintf(os.Stderr, "HARNESS-TROUBLE property=%s (determinism pass) %s\n", p.ID, tr)
			return 2
		}
		byIdx := map[int]*RunResult{}
		for _, r := range results {
			byIdx[r.Idx] = r
		}
		for _, r := range again {
			o := byIdx[r.Idx]
			if o == nil {
				continue // that run killed its worker in the first pass
			}
			if o.Hash != r.Hash {
				// with violations (or deaths) in the batch this is most likely the defect itself
				// (e.g. a data race changing results); alone it is harness trouble
				nondet = fmt.Sprintf("run %d hashed %s then %s", r.Idx, o.Hash, r.Hash)
				if o.Viol == nil && r.Viol != nil {
					o.Viol, o.Choices = r.Viol, r.Choices
				}
			}
		}
	}

	// merge
	stats := map[string]int64{}
	hashes := map[string]struct{}{}
	nontriv := map[string]struct{}{}
	shapes := map[string]struct{}{}
	states := map[uint64]struct{}{}
	var steps int64
	var samples []interface{}
	bySig := map[string]*RunResult{}
	var sigs []string
	for _, r := range results {
		for k, v := range r.Stats {
			stats[k] += v
		}
		hashes[r.Hash] = struct{}{}
		shapes[r.Shape] = struct{}{}
		if r.Nontrivial {
			nontriv[r.Hash] = struct{}{}
		}
		for _, s := range r.States {
			states[s] = struct{}{}
		}
		steps += int64(r.Steps)
		if r.Sample != nil && len(samples) < 3 {
			samples = append(samples, map[string]interface{}{"run": r.Idx, "scenario": r.Sample, "steps": r.Decoded})
		} else if len(r.Decoded) > 0 && len(samples) < 3 {
			samples = append(samples, map[string]interface{}{"run": r.Idx, "steps": r.Decoded})
		}
		if r.Viol != nil {
			if _, ok := bySig[r.Viol.Sig]; !ok {
				bySig[r.Viol.Sig] = r
				sigs = append(sigs, r.Viol.Sig)
			}
			stats["violating_runs"]++
		}
	}
	sort.Strings(sigs)
	// violations: every signature is minimised, classified and confirmed in CHILD
	// processes (a change that makes sqlittle crash the process must not take the
	// batch down): `shrink` rewrites the replay file in place, `replay` confirms.
	known := loadKnown(verifDir)
	exit := deathExit
	var knownSeen []string
	nviol := 0
	// VERIF_SHRINK_SECS: per-signature minimisation budget (0 = report unminimised; used
	// by regression sweeps over seeded changes, where only the verdict matters)
	budgetEach := envInt("VERIF_SHRINK_SECS", 90)
	if len(sigs) > 4 && budgetEach > 30 {
		budgetEach = 30
	}
	for k, sig := range sigs {
		r := bySig[sig]
		dir := filepath.Join(verifDir, "replays", p.ID)
		os.MkdirAll(dir, 0o755)
		name := sanitizeRe.ReplaceAllString(strings.TrimPrefix(sig, p.ID+":"), "_")
		if len(name) > 80 {
			name = name[:80]
		}
		path := filepath.Join(dir, name+".json")
		rf := &ReplayFile{Property: p.ID, Engine: p.Engine, Tier: tier, Seed: seed, Run: r.Idx, Choices: r.Choices,
			Signature: sig, Violation: r.Viol, Decoded: r.Decoded, Sample: r.Sample, Env: EnvInfo(), OrigLen: len(r.Choices)}
		b, _ := json.MarshalIndent(rf, "", " ")
		os.WriteFile(path, b, 0o644)
		if k < 8 && budgetEach > 0 {
			sh := exec.Command(self, "shrink", path, strconv.Itoa(budgetEach))
			sh.Env = childEnv()
			tb := &tailBuf{}
			sh.Stderr = tb
			sh.Stdout = tb
			runChild(sh, budgetEach+max(p.MaxRunSecs, 60)+30)
		}
		// what the shrinker left (it rewrites the file atomically on every improvement)
		if b2, err := os.ReadFile(path); err == nil {
			rf2 := &ReplayFile{}
			if json.Unmarshal(b2, rf2) == nil && rf2.Signature == sig {
				rf = rf2
			}
		}
		ksig := sig
		if rf.KnownSig != "" {
			ksig = rf.KnownSig
		}
		isKnown := false
		for _, f := range known.Findings {
			if f.Property == p.ID && f.Signature == ksig {
				isKnown = true
				fmt.Printf("KNOWN-FINDING: property=%s %s (signature %s, replay %s)\n", p.ID, f.What, ksig, path)
				knownSeen = append(knownSeen, ksig)
			}
		}
		if isKnown {
			continue
		}
		// confirm in a fresh process
		cmd := exec.Command(self, "replay", path)
		cmd.Env = childEnv()
		tb := &tailBuf{}
		cmd.Stdout, cmd.Stderr = tb, tb
		code, hung := runChild(cmd, max(p.MaxRunSecs, 60)+30)
		out := string(tb.buf)
		switch {
		case code == 1 && strings.Contains(out, "VIOLATION property="):
			fmt.Printf("VIOLATION property=%s replay=%s\n", p.ID, path)
			fmt.Printf("  signature: %s\n  %s: %s\n  minimised %d -> %d choices in %d executions\n", sig, rf.Violation.Kind, rf.Violation.Msg, rf.OrigLen, len(rf.Choices), rf.ShrinkRun)
			exit = 1
			nviol++
		case code == 0:
			// does not reproduce from the recorded choices in a fresh process: try the seed
			// (state that outlives a run - package-level variables of the system under test)
			child := exec.Command(self, "one", p.ID, tier, strconv.FormatUint(seed, 10), strconv.Itoa(r.Idx))
			child.Env = childEnv()
			ob := &tailBuf{}
			child.Stdout, child.Stderr = ob, ob
			runChild(child, max(p.MaxRunSecs, 60)+30)
			if strings.Contains(string(ob.buf), "VIOLSIG "+sig+"\n") {
				rf.FromSeed = true
				rf.Choices = nil
				b, _ := json.MarshalIndent(rf, "", " ")
				os.WriteFile(path, b, 0o644)
				fmt.Printf("VIOLATION property=%s replay=%s\n  signature: %s\n  %s: %s\n  reproduces from its seed in a fresh process (run %d) but not from the recorded choices: process-wide state is involved; not minimised\n", p.ID, path, sig, r.Viol.Kind, r.Viol.Msg, r.Idx)
				exit = 1
				nviol++
			} else {
				fmt.Fprintf(os.Stderr, "HARNESS-TROUBLE property=%s violation %q of run %d (reported by a worker: %s) does not reproduce in a fresh process, neither from its choices nor from its seed\n", p.ID, sig, r.Idx, r.Viol.Msg)
				return 2
			}
		default:
			// the replay itself died or hung: the recorded input kills the process
			dsig := ""
			if p.DeathSig != nil {
				dsig = p.DeathSig(out, hung)
			}
			if dsig == "" {
				fmt.Fprintf(os.Stderr, "HARNESS-TROUBLE property=%s replay of %s failed (exit %d, hung=%v):\n%s\n", p.ID, path, code, hung, lastLines(out, 20))
				return 2
			}
			fmt.Printf("VIOLATION property=%s replay=%s\n  signature: %s\n  %s: %s\n  replaying it kills the process: %s (%s)\n", p.ID, path, sig, rf.Violation.Kind, rf.Violation.Msg, dsig, lastLines(out, 2))
			exit = 1
			nviol++
		}
	}

	for _, f := range known.Findings {
		if f.Property == p.ID && stats["known."+f.Signature] > 0 {
			fmt.Printf("KNOWN-FINDING: property=%s %s (signature %s, seen %d times in this batch)\n", p.ID, f.What, f.Signature, stats["known."+f.Signature])
			knownSeen = append(knownSeen, f.Signature)
		}
	}
	wall := time.Since(t0).Seconds()
	if nondet != "" {
		if exit != 1 {
			// no violation of its own in the batch: the harness is not deterministic here
			fmt.Fprintf(os.Stderr, "HARNESS-TROUBLE property=%s nondeterminism: %s\n", p.ID, nondet)
			return 2
		}
		fmt.Printf("note: %s - two executions of one run differ; the batch holds violations, which were reported\n", nondet)
	}
	// vacuity guard
	if exit == 0 && p.Vacuity != nil {
		if err := p.Vacuity(stats, n, tier); err != nil {
			fmt.Fprintf(os.Stderr, "HARNESS-TROUBLE property=%s vacuity guard: %v\n", p.ID, err)
			exit = 2
		}
	}

	faults := map[string]int64{}
	probes := map[string]int64{}
	other := map[string]int64{}
	for k, v := range stats {
		switch {
		case strings.HasPrefix(k, "fault."):
			faults[k[6:]] = v
		case strings.HasPrefix(k, "probe."):
			probes[k[6:]] = v
		default:
			other[k] = v
		}
	}
	evals := stats["eval"]
	if evals == 0 {
		evals = int64(n)
	}
	ev := map[string]interface{}{
		"property_id": p.ID, "tier": tier, "seed": seed, "level": p.Level, "wall_s": wall, "violations": nviol,
		"assumptions": p.Assumptions,
		"coverage": map[string]interface{}{
			"evaluations":            evals,
			"distinct_nontrivial":    len(nontriv),
			"rule":                   p.Rule,
			"samples":                samples,
			"exhaustive":             p.Exhaustive,
			"runs":                   n,
			"distinct_event_logs":    len(hashes),
			"distinct_interleavings": len(shapes),
			"distinct_states":        len(states),
			"steps_simulated":        steps,
			"simulated_time":         "logical steps only: the system under test has no clock or timer",
			"runs_per_hour":          float64(n) / wall * 3600,
			"faults_injected":        faults,
			"probes":                 probes,
			"counters":               other,
			"components_real":        p.Real,
			"components_stubbed":     p.Stub,
			"known_findings_seen":    knownSeen,
			"determinism_rechecked":  len(recheck),
			"workers":                nw,
		},
	}
	os.MkdirAll(filepath.Join(verifDir, "evidence"), 0o755)
	b, _ := json.MarshalIndent(ev, "", " ")
	if err := os.WriteFile(filepath.Join(verifDir, "evidence", p.ID+".json"), b, 0o644); err != nil {
		fmt.Fprintf(os.Stderr, "HARNESS-TROUBLE cannot write evidence: %v\n", err)
		return 2
	}
	fmt.Printf("property=%s tier=%s runs=%d evaluations=%d distinct_logs=%d nontrivial=%d states=%d faults=%v wall=%.1fs exit=%d\n",
		p.ID, tier, n, evals, len(hashes), len(nontriv), len(states), faults, wall, exit)
	return exit
}

var envInfo = map[string]string{}

func SetEnvInfo(k, v string) { envInfo[k] = v }
func EnvInfo() map[string]string {
	m := map[string]string{"go": runtime.Version()}
	for k, v := range envInfo {
		m[k] = v
	}
	return m
}

// ReplayMain re-executes a replay file. Exit 1 + VIOLATION line if it reproduces.
func ReplayMain(path string) int {
	b, err := os.ReadFile(path)
	if err != nil {
		fmt.Fprintln(os.Stderr, err)
		return 2
	}
	rf := &ReplayFile{}
	if err := json.Unmarshal(b, rf); err != nil {
		fmt.Fprintln(os.Stderr, err)
		return 2
	}
	p := Registry[rf.Property]
	if p == nil {
		fmt.Fprintf(os.Stderr, "unknown property %q\n", rf.Property)
		return 2
	}
	if rf.FromSeed {
		// a run that kills its process: replay it in a child and observe the death
		self, _ := os.Executable()
		cmd := exec.Command(self, "one", p.ID, rf.Tier, strconv.FormatUint(rf.Seed, 10), strconv.Itoa(rf.Run))
		cmd.Env = childEnv()
		tb := &tailBuf{}
		ob := &tailBuf{}
		cmd.Stderr = tb
		cmd.Stdout = ob
		done := make(chan error, 1)
		cmd.Start()
		go func() { done <- cmd.Wait() }()
		var err error
		select {
		case err = <-done:
		case <-time.After(time.Duration(max(p.MaxRunSecs, 60)) * time.Second):
			cmd.Process.Kill()
			<-done
			err = fmt.Errorf("hung")
		}
		reapScratch(cmd)
		if err == nil {
			if strings.Contains(string(ob.buf), "VIOLSIG ") {
				fmt.Println(lastLines(string(ob.buf), 12))
				fmt.Printf("VIOLATION property=%s replay=%s\n  signature: %s\n  reproduced from its seed in a fresh process\n", p.ID, path, rf.Signature)
				return 1
			}
			fmt.Printf("replay of %s: the run completes without violation (property held on this tree)\n", path)
			return 0
		}
		fmt.Println(lastLines(string(tb.buf), 25))
		fmt.Printf("VIOLATION property=%s replay=%s\n  signature: %s\n  process death reproduced: %v\n", p.ID, path, rf.Signature, err)
		return 1
	}
	env, closer, err := p.NewEnv(rf.Tier)
	if err != nil {
		fmt.Fprintln(os.Stderr, err)
		return 2
	}
	defer closer()
	res, c := Execute(p.ID, rf.Tier, rf.Run, NewReplay(rf.Choices), env, rf.Cfg, p.Fn, 5000)
	for _, l := range c.Log.Lines {
		fmt.Println("  " + l)
	}
	if res.Trouble != "" {
		fmt.Fprintf(os.Stderr, "HARNESS-TROUBLE %s\n", res.Trouble)
		return 2
	}
	if res.Viol == nil {
		fmt.Printf("replay of %s: no violation (property held on this tree)\n", path)
		return 0
	}
	fmt.Printf("VIOLATION property=%s replay=%s\n  signature: %s\n  %s: %s\n", p.ID, path, res.Viol.Sig, res.Viol.Kind, res.Viol.Msg)
	if res.Viol.Sig != rf.Signature {
		fmt.Printf("  note: signature differs from the recorded one (%s)\n", rf.Signature)
	}
	if res.Hash != rf.LogHash {
		fmt.Printf("  note: event log hash %s differs from recorded %s (tree changed?)\n", res.Hash, rf.LogHash)
	}
	return 1
}

// DetTest executes the first n runs of a tier twice, in different processes,
// at different worker counts and GOMAXPROCS, and compares the event-log hashes.
func DetTest(self string, p *Prop, tier string, n int) int {
	seed := Seed()
	lists := func(nw int) [][]int {
		l := make([][]int, nw)
		for i := 0; i < n; i++ {
			l[i%nw] = append(l[i%nw], i)
		}
		return l
	}
	os.Setenv("GOMAXPROCS", "16")
	a, _, tr := runWorkers(self, p, tier, seed, 16, lists(16))
	if tr != "" {
		fmt.Fprintln(os.Stderr, "HARNESS-TROUBLE", tr)
		return 2
	}
	os.Setenv("GOMAXPROCS", "1")
	b, _, tr := runWorkers(self, p, tier, seed, 5, lists(5))
	if tr != "" {
		fmt.Fprintln(os.Stderr, "HARNESS-TROUBLE", tr)
		return 2
	}
	os.Setenv("GOMAXPROCS", "4")
	c, _, tr := runWorkers(self, p, tier, seed, 11, lists(11))
	if tr != "" {
		fmt.Fprintln(os.Stderr, "HARNESS-TROUBLE", tr)
		return 2
	}
	bad := 0
	for i := range a {
		if a[i].Hash != b[i].Hash || a[i].Hash != c[i].Hash {
			fmt.Printf("NONDETERMINISTIC %s run %d: %s %s %s\n", p.ID, a[i].Idx, a[i].Hash, b[i].Hash, c[i].Hash)
			bad++
		}
	}
	fmt.Printf("dettest %s %s: %d runs x 3 executions (workers 16/5/11, GOMAXPROCS 16/1/4): %d divergent\n", p.ID, tier, n, bad)
	if bad > 0 {
		return 2
	}
	return 0
}

func lastLines(s string, n int) string {
	lines := strings.Split(strings.TrimRight(s, "\n"), "\n")
	if len(lines) > n {
		lines = lines[len(lines)-n:]
	}
	return strings.Join(lines, "\n")
}

// childEnv: worker and replay children halt on the first race report (exit 66).
func childEnv() []string {
	var env []string
	for _, e := range os.Environ() {
		if !strings.HasPrefix(e, "GORACE=") {
			env = append(env, e)
		}
	}
	return append(env, "GORACE=halt_on_error=1 exitcode=66")
}

// runChild runs a child process with a timeout; returns its exit code (-1 if it was killed by a signal) and whether it hung.
func runChild(cmd *exec.Cmd, secs int) (int, bool) {
	if err := cmd.Start(); err != nil {
		return -1, false
	}
	done := make(chan error, 1)
	go func() { done <- cmd.Wait() }()
	defer reapScratch(cmd)
	select {
	case <-done:
		if cmd.ProcessState == nil {
			return -1, false
		}
		return cmd.ProcessState.ExitCode(), false
	case <-time.After(time.Duration(secs) * time.Second):
		cmd.Process.Kill()
		<-done
		return -1, true
	}
}

// reapScratch removes what a child that was killed or died could not remove itself:
// its per-process scratch directory (props.NewEnv names it after the child's pid).
func reapScratch(cmd *exec.Cmd) {
	if cmd.Process == nil {
		return
	}
	for _, base := range []string{"/dev/shm", os.TempDir()} {
		ds, _ := filepath.Glob(filepath.Join(base, fmt.Sprintf("verif-p%d-*", cmd.Process.Pid)))
		for _, d := range ds {
			os.RemoveAll(d)
		}
	}
}

// ShrinkMain minimises the replay file in place (child process of a batch).
func ShrinkMain(path string, budgetSecs int) int {
	b, err := os.ReadFile(path)
	if err != nil {
		return 2
	}
	rf := &ReplayFile{}
	if err := json.Unmarshal(b, rf); err != nil {
		return 2
	}
	p := Registry[rf.Property]
	if p == nil {
		return 2
	}
	env, closer, err := p.NewEnv(rf.Tier)
	if err != nil {
		return 2
	}
	defer closer()
	save := func() {
		b, _ := json.MarshalIndent(rf, "", " ")
		tmp := path + ".tmp"
		if os.WriteFile(tmp, b, 0o644) == nil {
			os.Rename(tmp, path)
		}
	}
	sig := rf.Signature
	runs := 0
	test := func(cand []uint32) (bool, []uint32) {
		res, c := Execute(p.ID, rf.Tier, rf.Run, NewReplay(cand), env, nil, p.Fn, 0)
		runs++
		ok := res.Viol != nil && res.Viol.Sig == sig && res.Trouble == ""
		return ok, c.Src.Rec
	}
	// keep the file up to date while shrinking: wrap test to save improvements
	best := rf.Choices
	wrapped := func(cand []uint32) (bool, []uint32) {
		ok, norm := test(cand)
		if ok {
			n := append([]uint32(nil), norm...)
			for len(n) > 0 && n[len(n)-1] == 0 {
				n = n[:len(n)-1]
			}
			if less(n, best) {
				best = n
				rf.Choices = n
				rf.ShrinkRun = runs
				save()
			}
		}
		return ok, norm
	}
	choices, _ := Shrink(rf.Choices, wrapped, 400, time.Duration(budgetSecs)*time.Second)
	rf.Choices = choices
	rf.ShrinkRun = runs
	final, c2 := Execute(p.ID, rf.Tier, rf.Run, NewReplay(choices), env, nil, p.Fn, 3000)
	if final.Viol != nil && final.Viol.Sig == sig {
		rf.Violation = final.Viol
		rf.LogHash = final.Hash
		rf.Log = c2.Log.Lines
		rf.Decoded = final.Decoded
		rf.Sample = final.Sample
		if p.Classify != nil {
			rerun := func(cfg map[string]string) *RunResult {
				rr, _ := Execute(p.ID, rf.Tier, rf.Run, NewReplay(choices), env, cfg, p.Fn, 0)
				return rr
			}
			if s := p.Classify(final.Viol, rerun); s != "" {
				rf.KnownSig = s
			}
		}
	}
	save()
	return 0
}

func firstLineOf(s string) string {
	if i := strings.IndexByte(s, '\n'); i >= 0 {
		return s[:i]
	}
	return s
}

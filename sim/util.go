package sim

import "runtime/debug"

func stack() string { return string(debug.Stack()) }

package sim

import (
	"fmt"
	"hash/fnv"
	"sort"
)

// Violation of a property found by a run.
type Violation struct {
	Kind   string      `json:"kind"`
	Sig    string      `json:"signature"` // stable identity used for minimisation and known-findings
	Msg    string      `json:"message"`
	Detail interface{} `json:"detail,omitempty"`
}

// Trouble is harness trouble: never a violation, never a pass (exit 2).
type Trouble struct{ Msg string }

func (t Trouble) Error() string { return "harness trouble: " + t.Msg }

type stopRun struct{}

// KnownSigs is loaded from known_findings.json at start-up.
var KnownSigs = map[string]bool{}

// Ctx is handed to a property's run function.
type Ctx struct {
	Prop   string
	Tier   string
	Idx    int
	Src    *Src
	Log    *Log
	Stats  map[string]int64
	States map[uint64]struct{}
	Sample interface{} // decoded description of this run (kept for a few runs / for violations)
	Viol   *Violation
	Env    interface{} // engine resources, owned by the worker process
	Cfg    map[string]string
	// Nontrivial is set by the run when it reached the property's interesting probe.
	Nontrivial bool
	Decoded    []string // human readable scenario (bounded)
	// Known signatures (known_findings.json): recorded and counted, the run goes on.
	Known map[string]bool
}

func (c *Ctx) Inc(key string, n int64) { c.Stats[key] += n }
func (c *Ctx) Probe(name string)       { c.Stats["probe."+name]++ }
func (c *Ctx) Fault(kind string)       { c.Stats["fault."+kind]++ }
func (c *Ctx) Eval(n int)              { c.Stats["eval"] += int64(n) }

func (c *Ctx) State(parts ...interface{}) {
	h := fnv.New64a()
	fmt.Fprint(h, parts...)
	if len(c.States) < 4096 {
		c.States[h.Sum64()] = struct{}{}
	}
}

func (c *Ctx) Note(format string, args ...interface{}) {
	if len(c.Decoded) < 400 {
		c.Decoded = append(c.Decoded, fmt.Sprintf(format, args...))
	}
}

// Fail records the violation and unwinds the run.
func (c *Ctx) Fail(kind, sig, msg string, detail interface{}) {
	if c.Known[c.Prop+":"+sig] {
		c.Stats["known."+c.Prop+":"+sig]++
		c.Log.Add("oracle", "KNOWN", "%s %s", kind, sig)
		return
	}
	if c.Viol == nil {
		c.Viol = &Violation{Kind: kind, Sig: c.Prop + ":" + sig, Msg: msg, Detail: detail}
		c.Log.Add("oracle", "VIOLATION", "%s %s", kind, sig)
	}
	panic(stopRun{})
}

// Troublef aborts with harness trouble.
func (c *Ctx) Troublef(format string, args ...interface{}) {
	panic(Trouble{fmt.Sprintf(format, args...)})
}

// RunResult is what a worker reports per run.
type RunResult struct {
	Idx        int              `json:"idx"`
	Hash       string           `json:"hash"`
	Shape      string           `json:"shape"`
	Steps      int              `json:"steps"`
	Stats      map[string]int64 `json:"stats"`
	States     []uint64         `json:"states,omitempty"`
	Nontrivial bool             `json:"nontrivial"`
	Viol       *Violation       `json:"viol,omitempty"`
	Choices    []uint32         `json:"choices,omitempty"` // only for violations
	Sample     interface{}      `json:"sample,omitempty"`
	Decoded    []string         `json:"decoded,omitempty"`
	Trouble    string           `json:"trouble,omitempty"`
	WallMs     int64            `json:"wall_ms"`
}

// RunFn executes one run. It must derive everything from c.Src.
type RunFn func(c *Ctx)

// Execute runs fn once with the given source and recovers the unwinding.
// A panic that is neither stopRun nor Trouble is a harness bug (Trouble):
// properties that look for SUT panics recover them themselves.
func Execute(prop, tier string, idx int, src *Src, env interface{}, cfg map[string]string, fn RunFn, keepLog int) (res *RunResult, ctx *Ctx) {
	c := &Ctx{Prop: prop, Tier: tier, Idx: idx, Src: src, Log: NewLog(keepLog),
		Stats: map[string]int64{}, States: map[uint64]struct{}{}, Env: env, Cfg: cfg, Known: KnownSigs}
	res = &RunResult{Idx: idx}
	func() {
		defer func() {
			if r := recover(); r != nil {
				switch v := r.(type) {
				case stopRun:
				case Trouble:
					res.Trouble = v.Msg
				case ErrTooManyChoices:
					res.Trouble = "too many choices drawn"
				default:
					res.Trouble = fmt.Sprintf("harness panic: %v\n%s", r, stack())
				}
			}
		}()
		fn(c)
	}()
	if res.Trouble != "" {
		n := len(c.Decoded)
		if n > 6 {
			n = 6
		}
		for _, d := range c.Decoded[len(c.Decoded)-n:] {
			res.Trouble += "\n    | " + d
		}
	}
	res.Hash = c.Log.Hash()
	res.Shape = c.Log.Shape()
	res.Steps = c.Log.N
	res.Stats = c.Stats
	res.Nontrivial = c.Nontrivial
	res.Viol = c.Viol
	for s := range c.States {
		res.States = append(res.States, s)
	}
	sort.Slice(res.States, func(i, j int) bool { return res.States[i] < res.States[j] })
	res.Sample = c.Sample
	res.Decoded = c.Decoded
	return res, c
}

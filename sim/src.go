// Package sim is the simulator core: one choice source decides everything, an
// event log identifies a run, replay files reproduce it, a shrinker minimises it.
package sim

import (
	"crypto/sha256"
	"encoding/hex"
	"fmt"
	"hash"
)

// splitmix64 — own implementation so no toolchain's math/rand is involved.
func splitmix(x *uint64) uint64 {
	*x += 0x9e3779b97f4a7c15
	z := *x
	z = (z ^ (z >> 30)) * 0xbf58476d1ce4e5b9
	z = (z ^ (z >> 27)) * 0x94d049bb133111eb
	return z ^ (z >> 31)
}

// Mix derives a run seed from (batch seed, property, run index).
func Mix(seed uint64, prop string, idx int) uint64 {
	x := seed ^ 0x5851f42d4c957f2d
	for _, c := range []byte(prop) {
		x = x*0x100000001b3 ^ uint64(c)
	}
	x ^= uint64(idx) * 0xd6e8feb86659fd93
	splitmix(&x)
	return splitmix(&x)
}

// Src is the single source of choices of one run. In generate mode values come
// from the PRNG; in replay mode from a recorded sequence (clamped mod n, zero
// when exhausted). The normalised sequence actually used is recorded.
type Src struct {
	state   uint64
	replay  []uint32
	pos     int
	isRepl  bool
	Rec     []uint32
	Labels  []string // only kept when KeepLabels
	KeepLab bool
	MaxRec  int
	NoRec   bool // sub-sources: do not record
}

func NewSrc(seed uint64) *Src { return &Src{state: seed, MaxRec: 1 << 22} }

func NewReplay(choices []uint32) *Src {
	return &Src{replay: choices, isRepl: true, MaxRec: 1 << 22}
}

// ErrTooManyChoices aborts runaway runs (harness trouble, not a violation).
type ErrTooManyChoices struct{}

// Draw returns a value in [0,n). 0 is by convention the simplest choice.
func (s *Src) Draw(n int, label string) int {
	if n <= 1 {
		return 0
	}
	var v uint32
	if s.isRepl {
		if s.pos < len(s.replay) {
			v = s.replay[s.pos] % uint32(n)
		}
		s.pos++
	} else {
		v = uint32(splitmix(&s.state) % uint64(n))
	}
	if len(s.Rec) >= s.MaxRec {
		panic(ErrTooManyChoices{})
	}
	if s.NoRec {
		return int(v)
	}
	s.Rec = append(s.Rec, v)
	if s.KeepLab {
		s.Labels = append(s.Labels, label)
	}
	return int(v)
}

// Bool draws true with probability num/den (den<=1<<16). false is "simplest".
func (s *Src) Chance(num, den int, label string) bool {
	return s.Draw(den, label) >= den-num
}

func (s *Src) Range(lo, hi int, label string) int { return lo + s.Draw(hi-lo+1, label) }

// Pick weighted: weights w[i]; returns index. Index 0 should be the simplest.
func (s *Src) Weighted(w []int, label string) int {
	t := 0
	for _, x := range w {
		t += x
	}
	v := s.Draw(t, label)
	for i, x := range w {
		if v < x {
			return i
		}
		v -= x
	}
	return len(w) - 1
}

// Log is the event log of a run. Its SHA-256 is the run's identity.
type Log struct {
	h     hash.Hash
	Lines []string
	Keep  int // max lines kept verbatim
	N     int
	shape hash.Hash
}

func NewLog(keep int) *Log { return &Log{h: sha256.New(), shape: sha256.New(), Keep: keep} }

func (l *Log) Add(actor, kind, format string, args ...interface{}) {
	msg := fmt.Sprintf(format, args...)
	line := fmt.Sprintf("%d %s %s %s", l.N, actor, kind, msg)
	l.N++
	l.h.Write([]byte(line))
	l.h.Write([]byte{'\n'})
	l.shape.Write([]byte(actor + ":" + kind + "\n"))
	if len(l.Lines) < l.Keep {
		l.Lines = append(l.Lines, line)
	}
}

func (l *Log) Hash() string  { return hex.EncodeToString(l.h.Sum(nil))[:32] }
func (l *Log) Shape() string { return hex.EncodeToString(l.shape.Sum(nil))[:16] }

// Package world drives a real SQLite writer through a generated history and keeps
// SQLite's own view of the committed state (the reference model) after every commit.
package world

import (
	"verif/fold"
	"fmt"
	"hash/fnv"
	"math"
	"os"
	"path/filepath"
	"strings"

	"verif/gen"
	"verif/sim"
	"verif/sq"
)

type Profile struct {
	PageSizes   []int
	MaxTables   int
	RowsLo      int
	RowsHi      int
	Fancy       int  // 0..10 exotic DDL
	DDL         bool // DDL in the history
	Vacuum      bool
	Boundary    bool // rows with payload sizes around the spill thresholds
	LongKeys    int  // chance (x/10) that a table gets ~100 byte text keys (deep index trees)
	WithoutRow  int  // chance x/10 of WITHOUT ROWID
	IndexesHi   int
	Exprs       bool
	DbStat      bool
	NoSnapshot  bool
	JournalMode []string
	LegacyFormat bool // one world in eight is a legacy-format file (schema format 1, later 2 or 3: DESC in indexes is ignored)
	TextBoolDefaults bool // ALTER ... ADD COLUMN c TEXT DEFAULT TRUE is generated (see world.Step)
	WALTrip     bool // histories may take the file through WAL mode and back
	CounterWrap bool // histories may put the file change counter just below its wrap-around
	CacheSize   int // writer cache_size pragma (pages); 0 = default
}

var AllPageSizes = []int{4096, 512, 1024, 2048, 8192, 16384, 32768, 65536}

type World struct {
	C       *sim.Ctx
	S       *sim.Src
	VS      *sim.Src // value source: row values of one INSERT batch come from a sub-source seeded by ONE choice
	W       *sq.Worker
	Dir     string
	Path    string
	Conn    string
	OConn   string
	Prof    Profile
	Snap    *sq.Snapshot
	Hints   map[string]interface{}
	Version int
	hasMax  map[string]bool
	longKey map[string]bool
	seq     int
	PageSz  int
	AutoVac int
	JMode   string
	InTx    bool
	Legacy  bool // the file was created with the legacy schema format (as SQLite 3.3 - 3.7.9 did by default)
	counterPatched bool
	InWAL   bool // the file is in WAL mode right now (a rollback-journal reader must refuse it)
	Commits int
	// OnCommit is called after every refresh of the reference snapshot.
	OnCommit func()
}

// New creates the database file with drawn page size / auto_vacuum / journal mode.
func New(c *sim.Ctx, w *sq.Worker, dir string, prof Profile) *World {
	wd := &World{C: c, S: c.Src, VS: c.Src, W: w, Dir: dir, Path: filepath.Join(dir, "db"), Conn: "w", OConn: "o", Prof: prof,
		Hints: map[string]interface{}{}, hasMax: map[string]bool{}, longKey: map[string]bool{}}
	s := c.Src
	wd.PageSz = prof.PageSizes[s.Draw(len(prof.PageSizes), "pagesize")]
	wd.AutoVac = s.Weighted([]int{5, 2, 2}, "autovac")
	jm := prof.JournalMode
	if len(jm) == 0 {
		jm = []string{"DELETE", "TRUNCATE", "PERSIST"}
	}
	wd.JMode = jm[s.Draw(len(jm), "jmode")]
	pragmas := []string{
		fmt.Sprintf("PRAGMA page_size=%d", wd.PageSz),
		fmt.Sprintf("PRAGMA auto_vacuum=%d", wd.AutoVac),
		"PRAGMA journal_mode=" + wd.JMode,
		"PRAGMA foreign_keys=OFF",
	}
	if prof.CacheSize > 0 {
		pragmas = append(pragmas, fmt.Sprintf("PRAGMA cache_size=%d", prof.CacheSize))
	}
	if err := w.Open(wd.Conn, wd.Path, pragmas...); err != nil {
		c.Troublef("open writer: %v", err)
	}
	if err := w.Open(wd.OConn, wd.Path); err != nil {
		c.Troublef("open oracle: %v", err)
	}
	if prof.LegacyFormat && s.Chance(1, 8, "legacy-format") {
		// what SQLite 3.3.0 - 3.7.9 created by default: schema format 1; it becomes 2 or 3
		// with the first ALTER TABLE ADD COLUMN, never 4, and in such a file the DESC of an
		// index is ignored (entries are stored ascending). Made here by writing the format
		// number into a fresh file while nobody has it open; SQLite then keeps to it.
		if wd.Exec("CREATE TABLE legacy0 (x)") {
			w.CloseConn(wd.Conn)
			w.CloseConn(wd.OConn)
			if f, err := os.OpenFile(wd.Path, os.O_WRONLY, 0); err == nil {
				f.WriteAt([]byte{0, 0, 0, 1}, 44)
				f.Close()
			}
			if err := w.Open(wd.Conn, wd.Path, pragmas[2:]...); err != nil {
				c.Troublef("reopen writer: %v", err)
			}
			if err := w.Open(wd.OConn, wd.Path); err != nil {
				c.Troublef("reopen oracle: %v", err)
			}
			wd.Legacy = true
			c.Probe("legacy-format-file")
			c.Note("-- schema format (header offset 44) := 1 on the fresh file")
		}
	}
	c.Log.Add("W", "open", "page_size=%d auto_vacuum=%d journal=%s", wd.PageSz, wd.AutoVac, wd.JMode)
	c.Note("PRAGMA page_size=%d; auto_vacuum=%d; journal_mode=%s", wd.PageSz, wd.AutoVac, wd.JMode)
	return wd
}

func (w *World) Close() {
	w.W.CloseConn(w.Conn)
	w.W.CloseConn(w.OConn)
}

func short(s string, n int) string {
	if len(s) > n {
		return s[:n] + "…"
	}
	return s
}

// Exec runs one statement on the writer; SQLite errors are tolerated and logged.
func (w *World) Exec(sql string, params ...sq.Val) bool {
	r, err := w.W.Exec(w.Conn, sql, params...)
	if err != nil {
		w.C.Troublef("writer: %v", err)
	}
	if r.OK {
		w.C.Log.Add("W", "sql", "%s /%d ok", short(sql, 200), len(params))
		w.C.Note("%s  -- %d params", short(sql, 300), len(params))
	} else {
		w.C.Log.Add("W", "sql", "%s /%d err=%s", short(sql, 200), len(params), r.Err)
		w.C.Note("%s  -- FAILED: %s", short(sql, 300), r.Err)
		w.C.Inc("writer_stmt_errors", 1)
	}
	w.InTx = r.InTx
	return r.OK
}

func (w *World) Many(sql string, rows [][]sq.Val) bool {
	rr := make([][][]string, len(rows))
	for i, r := range rows {
		rr[i] = make([][]string, len(r))
		for j, v := range r {
			rr[i][j] = sq.EncVal(v)
		}
	}
	r, err := w.W.Call(map[string]interface{}{"op": "many", "id": w.Conn, "sql": sql, "rows": rr})
	if err != nil {
		w.C.Troublef("writer: %v", err)
	}
	w.C.Log.Add("W", "many", "%s x%d ok=%v %s", short(sql, 200), len(rows), r.OK, r.Err)
	w.C.Note("%s  -- x%d rows ok=%v %s", short(sql, 300), len(rows), r.OK, r.Err)
	w.InTx = r.InTx
	return r.OK
}

func (w *World) Begin() {
	if !w.Exec("BEGIN IMMEDIATE") {
		w.C.Troublef("BEGIN failed")
	}
}

// Commit commits and refreshes the reference snapshot.
func (w *World) Commit() {
	if w.InTx {
		if !w.Exec("COMMIT") {
			w.Exec("ROLLBACK")
		}
	}
	w.Refresh()
}

func (w *World) Refresh() {
	if w.Prof.NoSnapshot {
		w.Version++
		return
	}
	s, err := w.W.Snapshot(w.OConn, w.Hints, w.Prof.DbStat)
	if err != nil {
		w.C.Troublef("snapshot: %v", err)
	}
	if !s.OK {
		w.C.Troublef("snapshot failed: %s", s.Err)
	}
	w.Snap = s
	w.Version++
	w.Commits++
	nrows := 0
	h := fnv.New64a()
	for _, t := range s.Tables {
		nrows += len(t.Rows)
		fmt.Fprintf(h, "T%s/%v;", t.Name, t.WithoutRowid)
		for i, r := range t.Rows {
			if t.Rowids != nil {
				fmt.Fprintf(h, "%d:", t.Rowids[i])
			}
			h.Write([]byte(sq.FmtRowExact(r)))
		}
		for _, ix := range t.Indexes {
			fmt.Fprintf(h, "I%s/%d;", ix.Name, len(ix.Entries))
			for _, e := range ix.Entries {
				fmt.Fprintf(h, "%d,", e.Pos)
			}
		}
	}
	for _, m := range s.Master {
		fmt.Fprintf(h, "M%s/%s/%d;", m.Type, m.Name, m.Rootpage)
	}
	w.C.Log.Add("O", "snapshot", "v%d tables=%d rows=%d pages=%d free=%d content=%x", w.Version, len(s.Tables), nrows, s.PragmaInt("page_count"), s.PragmaInt("freelist_count"), h.Sum64())
	if w.OnCommit != nil {
		w.OnCommit()
	}
}

// SchemaFormat reads the schema format number from the file header (0 if unreadable).
func (w *World) SchemaFormat() int {
	f, err := os.Open(w.Path)
	if err != nil {
		return 0
	}
	defer f.Close()
	b := make([]byte, 4)
	if _, err := f.ReadAt(b, 44); err != nil {
		return 0
	}
	return int(b[0])<<24 | int(b[1])<<16 | int(b[2])<<8 | int(b[3])
}

func (w *World) journalModeIs(mode string) bool {
	v, _, err := w.W.Query(w.Conn, "PRAGMA journal_mode")
	if err != nil || len(v) != 1 {
		return false
	}
	switch x := v[0][0].(type) {
	case string:
		return fold.Lower(x) == mode
	case []byte:
		return fold.Lower(string(x)) == mode
	}
	return false
}

func (w *World) newName(prefix string) string {
	w.seq++
	return fmt.Sprintf("%s%d", prefix, w.seq)
}

var oddTableNames = []string{"My Table", "tä", "select", "T", "x.y", "tbl-1", "日本", "order"}

func unicodeTwin(n string) string {
	if fold.IsASCII(n) {
		return n
	}
	if u := strings.ToUpper(n); fold.Lower(u) != fold.Lower(n) {
		return fold.Lower(u)
	}
	return strings.ToLower(n)
}

func (w *World) tableNames() []string {
	var out []string
	if w.Snap != nil {
		for _, t := range w.Snap.Tables {
			out = append(out, t.Name)
		}
	}
	return out
}

// CreateTable creates a table (own transaction) and loads initial rows.
func (w *World) CreateTable() {
	s := w.S
	name := w.newName("t")
	if w.Prof.Fancy > 0 && s.Chance(w.Prof.Fancy, 40, "oddtname") {
		name = oddTableNames[s.Draw(len(oddTableNames), "oddt")] + fmt.Sprint(w.seq)
		// a twin of an existing table whose name differs only in the case of a non-ASCII
		// letter: two different tables for SQLite, which folds A-Z only
		for _, tn := range w.tableNames() {
			if tw := unicodeTwin(tn); tw != tn && w.Snap.Table(tw) == nil && s.Chance(1, 2, "twintable") {
				name = tw
				break
			}
		}
	}
	wr := s.Chance(w.Prof.WithoutRow, 10, "withoutrowid")
	sql, _ := gen.CreateTable(s, name, w.Prof.Fancy, wr, w.tableNames())
	w.Begin()
	ok := w.Exec(sql)
	if ok && s.Chance(w.Prof.LongKeys, 10, "longkeys") {
		w.longKey[fold.Lower(name)] = true
	}
	w.Commit()
	if !ok {
		return
	}
	t := w.Snap.Table(name)
	if t == nil {
		return
	}
	// indexes first or after load (both orders build different trees)
	nidx := s.Draw(w.Prof.IndexesHi+1, "nidx")
	before := s.Chance(1, 3, "idxbefore")
	if before {
		for i := 0; i < nidx; i++ {
			w.CreateIndex(name)
		}
	}
	w.Begin()
	w.InsertRows(name, w.Prof.RowsLo+s.Draw(w.Prof.RowsHi-w.Prof.RowsLo+1, "nrows"))
	w.Commit()
	if !before {
		for i := 0; i < nidx; i++ {
			w.CreateIndex(name)
		}
	}
}

func (w *World) CreateIndex(table string) {
	t := w.Snap.Table(table)
	if t == nil || len(t.ColNames()) == 0 {
		return
	}
	name := w.newName("ix")
	spec := gen.CreateIndex(w.S, name, t.Name, t.ColNames(), w.Prof.Fancy, w.Prof.Exprs)
	w.Begin()
	if w.Exec(spec.SQL) {
		h := map[string]interface{}{}
		if spec.Where != "" {
			h["where"] = spec.Where
		}
		if len(spec.Exprs) > 0 {
			ex := map[string]interface{}{}
			for k, v := range spec.Exprs {
				ex[k] = v
			}
			h["exprs"] = ex
		}
		w.Hints[fold.Lower(name)] = h
	}
	w.Commit()
}

// rowidAliasCol: the generator's guess which column aliases the rowid (only used
// to keep automatic rowid allocation deterministic, never as an oracle).
func rowidAliasCol(t *sq.Table) int {
	if t.WithoutRowid {
		return -1
	}
	pk := -1
	n := 0
	for i, c := range t.Columns {
		if c.PK > 0 {
			pk = i
			n++
		}
	}
	if n == 1 && fold.Equal(t.Columns[pk].Type, "INTEGER") {
		return pk
	}
	return -1
}

func (w *World) genRowid(t *sq.Table) int64 {
	s := w.VS
	switch s.Weighted([]int{10, 2, 2, 1}, "rowidkind") {
	case 0:
		base := int64(1)
		if len(t.Rowids) > 0 && t.Rowids[len(t.Rowids)-1] < math.MaxInt64-100000 && t.Rowids[len(t.Rowids)-1] > 0 {
			base = t.Rowids[len(t.Rowids)-1] + 1
		}
		return base + int64(s.Draw(5000, "rowid"))
	case 1:
		return -int64(s.Draw(1000, "negrowid"))
	case 2:
		if len(t.Rowids) > 0 {
			return t.Rowids[s.Draw(len(t.Rowids), "existing")] // replace
		}
		return 0
	default:
		v := []int64{math.MaxInt64, math.MinInt64, math.MaxInt64 - 1, 0, 1 << 32, 1 << 48, -(1 << 32), 1 << 56}[s.Draw(8, "extreme")]
		return v
	}
}

func (w *World) genValueFor(t *sq.Table, ci int, long bool, tag int) sq.Val {
	s := w.VS
	c := t.Columns[ci]
	if long && s.Chance(3, 4, "longkey") {
		// ~100-byte keys, few distinct values: deep index trees with duplicate runs
		k := s.Draw(40, "keytag")
		v := gen.Payload(90+k%20, k, false).(string)
		if s.Chance(1, 4, "case") {
			v = strings.ToUpper(v[:1]) + v[1:]
		}
		return v
	}
	mix := gen.DefaultMix
	ty := fold.Upper(c.Type)
	switch {
	case strings.Contains(ty, "INT"):
		mix = [5]int{1, 10, 2, 3, 1}
	case strings.Contains(ty, "CHAR") || strings.Contains(ty, "TEXT") || strings.Contains(ty, "CLOB"):
		mix = [5]int{1, 2, 1, 12, 1}
	case strings.Contains(ty, "BLOB"):
		mix = [5]int{1, 2, 1, 4, 8}
	case strings.Contains(ty, "REAL") || strings.Contains(ty, "FLOA") || strings.Contains(ty, "DOUB"):
		mix = [5]int{1, 4, 10, 2, 1}
	}
	if c.NotNull != 0 || c.PK > 0 {
		mix[0] = 0
	}
	return gen.Value(s, mix)
}

// InsertRows inserts n generated rows (inside the caller's transaction).
func (w *World) InsertRows(table string, n int) {
	t := w.Snap.Table(table)
	if t == nil || n == 0 {
		return
	}
	s := w.S
	key := fold.Lower(t.Name)
	if len(t.Rowids) > 0 && t.Rowids[len(t.Rowids)-1] >= math.MaxInt64-1000000 {
		// after the maximum rowid SQLite allocates rowids at random: never rely on it
		w.hasMax[key] = true
	}
	alias := rowidAliasCol(t)
	var cols []int
	for i, c := range t.Columns {
		if c.Hidden == 0 {
			cols = append(cols, i)
		}
	}
	// occasionally leave trailing columns out (defaults apply at insert time)
	useCols := cols
	if len(cols) > 1 && s.Chance(1, 8, "fewercols") {
		useCols = cols[:1+s.Draw(len(cols)-1, "ncols")]
		if alias >= 0 && w.hasMax[key] {
			// the alias column must be given explicitly: after the maximum rowid
			// SQLite allocates rowids at random
			useCols = cols
		}
	}
	explicitRowid := !t.WithoutRowid && t.RowidAlias != nil && alias < 0 && (w.hasMax[key] || s.Chance(1, 3, "explicitrowid"))
	var names []string
	if explicitRowid {
		names = append(names, *t.RowidAlias)
	}
	for _, ci := range useCols {
		names = append(names, gen.Quote(t.Columns[ci].Name))
	}
	ph := strings.TrimSuffix(strings.Repeat("?,", len(names)), ",")
	verb := []string{"INSERT OR REPLACE", "INSERT OR IGNORE", "INSERT OR REPLACE"}[s.Draw(3, "verb")]
	sql := fmt.Sprintf("%s INTO %s(%s) VALUES (%s)", verb, gen.Quote(t.Name), strings.Join(names, ","), ph)
	long := w.longKey[key]
	thr := gen.Thresholds(w.PageSz)
	// all values of this batch derive from one drawn seed: the choice sequence stays
	// short and structural (what the minimiser works on), rows are independent of
	// each other's draws
	sub := sim.NewSrc(uint64(s.Draw(1<<30, "rowseed"))*0x9e3779b97f4a7c15 + 1)
	sub.NoRec = true
	w.VS = sub
	defer func() { w.VS = w.S }()
	s = sub
	var rows [][]sq.Val
	nextAuto := int64(1)
	if len(t.Rowids) > 0 {
		nextAuto = t.Rowids[len(t.Rowids)-1]
	}
	for r := 0; r < n; r++ {
		var row []sq.Val
		if explicitRowid {
			rid := w.genRowid(t)
			if rid >= math.MaxInt64-1000000 {
				w.hasMax[key] = true
			}
			row = append(row, rid)
		}
		bigcol := -1
		if w.Prof.Boundary && s.Chance(1, 6, "bigrow") || s.Chance(1, 60, "bigrow2") {
			bigcol = s.Draw(len(useCols), "bigcol")
		}
		for k, ci := range useCols {
			var v sq.Val
			switch {
			case ci == alias:
				// the (probable) rowid alias: keep allocation deterministic
				if w.hasMax[key] || s.Chance(1, 2, "aliasexplicit") {
					rid := w.genRowid(t)
					if rid >= math.MaxInt64-1000000 {
						w.hasMax[key] = true
					}
					v = rid
				} else {
					v = nil
				}
			case k == bigcol:
				var ln int
				if s.Chance(2, 3, "thr") {
					ln = thr[s.Draw(len(thr), "thr")] - 8 + s.Draw(12, "thrd")
				} else {
					ln = s.Draw(3*w.PageSz, "len")
				}
				if ln < 0 {
					ln = 0
				}
				if ln > 200000 {
					ln = 200000
				}
				v = gen.Payload(ln, r+w.Version*1000, s.Chance(1, 3, "blob"))
				w.C.Probe("big-payload-row")
			default:
				v = w.genValueFor(t, ci, long, r)
			}
			row = append(row, v)
		}
		rows = append(rows, row)
	}
	_ = nextAuto
	if alias >= 0 {
		// a NULL alias value after a max rowid would make SQLite pick a random rowid
		for _, row := range rows {
			_ = row
		}
	}
	w.Many(sql, rows)
}

// Sweep inserts one row per payload length in [lo,hi) into a single-column-ish table.
func (w *World) Sweep(table string, lo, hi, step int, blob bool) {
	t := w.Snap.Table(table)
	if t == nil {
		return
	}
	cols := t.ColNames()
	sql := fmt.Sprintf("INSERT INTO %s(%s) VALUES (?)", gen.Quote(t.Name), gen.Quote(cols[len(cols)-1]))
	var rows [][]sq.Val
	for l := lo; l < hi; l += step {
		rows = append(rows, []sq.Val{gen.Payload(l, l, blob)})
	}
	w.Many(sql, rows)
}

func (w *World) whereClause(t *sq.Table) (string, []sq.Val) {
	s := w.S
	if !t.WithoutRowid && t.RowidAlias != nil && len(t.Rowids) > 0 && s.Chance(2, 3, "byrowid") {
		a := t.Rowids[s.Draw(len(t.Rowids), "from")]
		span := int64(s.Draw(1+len(t.Rowids)/3, "span"))
		b := a
		if a < math.MaxInt64-span*3-1 {
			b = a + span*3
		}
		return fmt.Sprintf("WHERE %s BETWEEN ? AND ?", *t.RowidAlias), []sq.Val{a, b}
	}
	cols := t.ColNames()
	c := gen.Quote(cols[s.Draw(len(cols), "wcol")])
	switch s.Draw(4, "wkind") {
	case 0:
		return "WHERE " + c + " IS ?", []sq.Val{gen.Value(s, gen.DefaultMix)}
	case 1:
		return "WHERE typeof(" + c + ") = ?", []sq.Val{[]string{"integer", "text", "null", "real", "blob"}[s.Draw(5, "ty")]}
	case 2:
		return "WHERE " + c + " < ?", []sq.Val{gen.Value(s, gen.DefaultMix)}
	default:
		return "WHERE " + c + " >= ?", []sq.Val{gen.Value(s, gen.DefaultMix)}
	}
}

// Step performs one committed transaction of the history.
func (w *World) Step() {
	s := w.S
	if w.Legacy && w.SchemaFormat() == 1 && s.Chance(1, 3, "legacy-upgrade") {
		// the first ADD COLUMN takes a legacy file to format 2 (NULL default) or 3
		w.seq++
		w.Begin()
		w.Exec(fmt.Sprintf("ALTER TABLE legacy0 ADD COLUMN y%d %s", w.seq, []string{"DEFAULT 5", "", "TEXT DEFAULT 'd'"}[s.Draw(3, "legacy-default")]))
		w.Commit()
		return
	}
	tabs := w.Snap.Tables
	if len(tabs) == 0 {
		w.CreateTable()
		return
	}
	t := tabs[s.Draw(len(tabs), "table")]
	weights := []int{10, 6, 6, 0, 0, 0, 0, 0, 0, 0, 0, 0, 0, 0, 0, 0, 0, 0}
	if w.Prof.WALTrip {
		weights[16] = 1
	}
	if w.Prof.CounterWrap {
		weights[17] = 1
	}
	weights = append(weights, 0)
	if w.Prof.Fancy >= 4 {
		weights[18] = 1
	}
	if w.Prof.DDL {
		weights[3], weights[4], weights[5], weights[6], weights[7], weights[8], weights[11], weights[12] = 2, 1, 3, 1, 4, 1, 1, 1
		weights[13], weights[14] = 1, 1
	}
	if w.Prof.Vacuum {
		weights[9], weights[10] = 1, 1
		if len(w.Prof.PageSizes) > 1 {
			weights[15] = 1
		}
	}
	kind := s.Weighted(weights, "txnkind")
	switch kind {
	case 0: // insert
		w.Begin()
		w.InsertRows(t.Name, 1+s.Draw(w.Prof.RowsHi/4+1, "nins"))
		w.Commit()
	case 1: // update
		cols := t.ColNames()
		ci := s.Draw(len(cols), "ucol")
		wh, ps := w.whereClause(t)
		var v sq.Val
		if w.Prof.Boundary && s.Chance(1, 4, "bigupdate") {
			v = gen.Payload(s.Draw(2*w.PageSz, "uplen"), w.Version, false)
		} else {
			idx := t.ColIndex(cols[ci])
			_ = idx
			v = gen.Value(s, gen.DefaultMix)
		}
		if rowidAliasCol(t) >= 0 && fold.Equal(t.Columns[rowidAliasCol(t)].Name, cols[ci]) {
			// updating the rowid alias: use an integer
			v = w.genRowid(t)
			if v.(int64) >= math.MaxInt64-1000000 {
				w.hasMax[fold.Lower(t.Name)] = true
			}
		}
		w.Begin()
		w.Exec(fmt.Sprintf("UPDATE OR %s %s SET %s = ? %s", []string{"REPLACE", "IGNORE"}[s.Draw(2, "uconf")], gen.Quote(t.Name), gen.Quote(cols[ci]), wh), append([]sq.Val{v}, ps...)...)
		w.Commit()
	case 2: // delete
		wh, ps := w.whereClause(t)
		w.Begin()
		w.Exec(fmt.Sprintf("DELETE FROM %s %s", gen.Quote(t.Name), wh), ps...)
		w.Commit()
	case 3: // create table
		if len(tabs) < w.Prof.MaxTables {
			w.CreateTable()
		} else {
			w.CreateIndex(t.Name)
		}
	case 4: // drop table + maybe re-create (root page reuse)
		w.Begin()
		w.Exec("DROP TABLE " + gen.Quote(t.Name))
		w.Commit()
		if s.Chance(2, 3, "recreate") {
			w.CreateTable()
		}
	case 5:
		w.CreateIndex(t.Name)
	case 6: // drop index
		var names []string
		for _, ix := range t.Indexes {
			if ix.Origin == "c" {
				names = append(names, ix.Name)
			}
		}
		if len(names) > 0 {
			n := names[s.Draw(len(names), "dropix")]
			w.Begin()
			if w.Exec("DROP INDEX " + gen.Quote(n)) {
				delete(w.Hints, fold.Lower(n))
			}
			w.Commit()
		}
	case 7: // alter add column
		cname := w.newName("nc")
		def := cname + " " + []string{"INTEGER", "TEXT", "", "REAL", "BLOB", "NUMERIC", "VARCHAR(20)", "BIGINT", "DOUBLE", "DATETIME"}[s.Draw(10, "acty")]
		defaults := []string{"", " DEFAULT 7", " DEFAULT 'dflt'", " NOT NULL DEFAULT 0", " DEFAULT 010", " DEFAULT '12'", " DEFAULT NULL", " COLLATE RTRIM DEFAULT 'abc  '",
			" DEFAULT ' 12 '", " DEFAULT '1e3'", " DEFAULT '12abc'", " DEFAULT '0x10'", " DEFAULT '.5'", " DEFAULT '-0'", " DEFAULT '9223372036854775808'",
			" DEFAULT 9223372036854775807", " DEFAULT -9223372036854775808", " DEFAULT '3.0'", " DEFAULT '+5'", " DEFAULT ''", " DEFAULT '1e400'", " DEFAULT abc", " DEFAULT TRUE", " DEFAULT false", " DEFAULT '12.50'",
			" DEFAULT tRuE", " DEFAULT falſe", " DEFAULT TRUE", " DEFAULT 'true'", " DEFAULT \"false\"", " DEFAULT truee"}
		dflt := defaults[s.Draw(len(defaults), "adef")]
		if !w.Prof.TextBoolDefaults && (strings.HasPrefix(def, cname+" TEXT") || strings.HasPrefix(def, cname+" VARCHAR")) {
			// DEFAULT TRUE on a TEXT column: rows older than the ALTER read the INTEGER 1 (no
			// TEXT affinity), an index created later stores the TEXT '1' for them - SQLite's own
			// index then disagrees with ORDER BY over the table's values. Only the table-scan
			// check (C01) keeps this combination; checks that read through indexes do not.
			switch fold.Lower(strings.TrimSpace(strings.TrimPrefix(dflt, " DEFAULT"))) {
			case "true", "false":
				dflt = " DEFAULT 1"
			}
		}
		def += dflt
		w.Begin()
		w.Exec("ALTER TABLE " + gen.Quote(t.Name) + " ADD COLUMN " + def)
		w.Commit()
		w.C.Probe("alter-add-column")
	case 8: // rename table
		nn := w.newName("r")
		w.Begin()
		if w.Exec("ALTER TABLE " + gen.Quote(t.Name) + " RENAME TO " + gen.Quote(nn)) {
			w.hasMax[fold.Lower(nn)] = w.hasMax[fold.Lower(t.Name)]
			w.longKey[fold.Lower(nn)] = w.longKey[fold.Lower(t.Name)]
		}
		w.Commit()
	case 9:
		w.Exec("VACUUM")
		w.Refresh()
		w.C.Probe("vacuum")
	case 10:
		w.Exec("PRAGMA incremental_vacuum")
		w.Refresh()
	case 11: // rename column (only columns not used by expression/partial hints)
		cols := t.ColNames()
		c := cols[s.Draw(len(cols), "rencol")]
		used := false
		for _, h := range w.Hints {
			if strings.Contains(fmt.Sprint(h), gen.Quote(c)) {
				used = true
			}
		}
		if !used {
			w.Begin()
			w.Exec("ALTER TABLE " + gen.Quote(t.Name) + " RENAME COLUMN " + gen.Quote(c) + " TO " + gen.Quote(w.newName("rc")))
			w.Commit()
		}
	case 13: // objects that are not tables or indexes: views and triggers live in sqlite_master too
		cols := t.ColNames()
		w.Begin()
		if s.Chance(1, 2, "view") {
			w.Exec("CREATE VIEW " + gen.Quote(w.newName("vw")) + " AS SELECT " + gen.Quote(cols[0]) + " FROM " + gen.Quote(t.Name))
		} else {
			w.Exec("CREATE TRIGGER " + gen.Quote(w.newName("tr")) + " AFTER DELETE ON " + gen.Quote(t.Name) + " BEGIN SELECT 1; END")
		}
		w.Commit()
		w.C.Probe("view-or-trigger-in-schema")
	case 18: // objects real databases contain and sqlittle may not know: it must refuse them or read them right
		name := w.newName("x")
		w.Begin()
		switch s.Draw(7, "exotic-object") {
		case 0: // full-text index: a virtual table plus shadow tables with single-quoted names
			if w.Exec("CREATE VIRTUAL TABLE " + name + " USING fts5(body, tag)") {
				for i := 0; i < 1+s.Draw(30, "nfts"); i++ {
					w.Exec(fmt.Sprintf("INSERT INTO %s(body, tag) VALUES ('the quick brown fox %d jumps', 'tag%d')", name, i, i%3))
				}
				w.C.Probe("fts5-shadow-tables")
			}
		case 1: // r-tree: shadow tables with a column named rowid
			if w.Exec("CREATE VIRTUAL TABLE " + name + " USING rtree(id, minx, maxx)") {
				for i := 0; i < 1+s.Draw(40, "nrtree"); i++ {
					w.Exec(fmt.Sprintf("INSERT INTO %s VALUES (%d, %d, %d)", name, i+1, i, i+10))
				}
				w.C.Probe("rtree-shadow-tables")
			}
		case 2:
			if w.Exec("CREATE TABLE " + name + " (a INTEGER PRIMARY KEY, b TEXT, c ANY) STRICT") {
				w.Exec("INSERT INTO " + name + " VALUES (1, 'x', 2.5), (2, 'y', x'00ff'), (7, NULL, 'z')")
			}
		case 3: // generated columns: the VIRTUAL one is not stored, the STORED one is
			def := "(a INT, b INT GENERATED ALWAYS AS (a + 1) VIRTUAL, c TEXT, d INT AS (a * 2) STORED, e TEXT DEFAULT 'e')"
			if s.Chance(1, 2, "generated-constant") {
				// "one AS (1)" looks like a column of type AS(1)
				def = "(a INTEGER PRIMARY KEY, one AS (1), c TEXT, e INT)"
			}
			if w.Exec("CREATE TABLE " + name + " " + def) {
				w.Exec("INSERT INTO " + name + "(a, c) VALUES (1, 'one'), (5, 'five'), (NULL, NULL)")
			}
		case 4: // CREATE TABLE AS: SQLite writes the definition itself
			if w.Exec("CREATE TABLE " + name + " AS SELECT rowid AS r, * FROM " + gen.Quote(t.Name)) {
				w.C.Probe("create-table-as")
			}
		case 5: // comments inside the stored text
			if w.Exec("CREATE TABLE /* c1 */ " + name + " (a /* inline */ INTEGER PRIMARY KEY, -- trailing comment\n b TEXT /* c2 */ COLLATE NOCASE, c)") {
				w.Exec("INSERT INTO " + name + " VALUES (1, 'Ab', 2), (2, 'aB', 3)")
				w.Exec("CREATE INDEX " + name + "i ON " + name + " (b /* c */ , c DESC) -- end")
			}
		default:
			if w.Exec("CREATE TABLE IF NOT EXISTS " + name + " (a, b, PRIMARY KEY (a, b)) WITHOUT ROWID, STRICT") || w.Exec("CREATE TABLE IF NOT EXISTS "+name+" (a INT, b INT, PRIMARY KEY (a, b)) STRICT, WITHOUT ROWID") {
				w.Exec("INSERT INTO " + name + " VALUES (1, 2), (1, 3), (0, 9)")
			}
		}
		w.Commit()
		w.C.Probe("exotic-object")
	case 16: // the file goes through WAL mode and back: commits made meanwhile are invisible to (and refused by) a rollback-journal reader
		w.W.CloseConn(w.OConn) // nobody else may have the file open when WAL mode is left again
		w.Exec("PRAGMA journal_mode=WAL")
		w.InWAL = w.journalModeIs("wal")
		if w.InWAL {
			w.C.Probe("wal-phase")
		}
		if err := w.W.Open(w.OConn, w.Path); err != nil {
			w.C.Troublef("reopen oracle: %v", err)
		}
		w.Begin()
		w.InsertRows(t.Name, 1+s.Draw(10, "nwal"))
		w.Commit() // OnCommit runs with InWAL set
		w.W.CloseConn(w.OConn)
		w.Exec("PRAGMA journal_mode=" + w.JMode)
		w.InWAL = w.journalModeIs("wal")
		if err := w.W.Open(w.OConn, w.Path); err != nil {
			w.C.Troublef("reopen oracle: %v", err)
		}
		w.Refresh()
	case 17: // the 32-bit change counter is put just below its wrap-around; the next commits take it through zero
		// (once per history: setting the counter back a second time would give two different
		// states the same counter value - something no SQLite writer does, and exactly what
		// every SQLite page cache, sqlittle's included, relies on)
		if !w.InWAL && !w.counterPatched {
			w.counterPatched = true
			if b, err := os.ReadFile(w.Path); err == nil && len(b) >= 100 {
				f, err := os.OpenFile(w.Path, os.O_WRONLY, 0)
				if err == nil {
					v := []byte{0xff, 0xff, 0xff, 0xfe}
					f.WriteAt(v, 24) // file change counter
					f.WriteAt(v, 92) // version-valid-for (so that the in-header size stays valid)
					f.Close()
					w.C.Probe("change-counter-near-wrap")
					w.C.Log.Add("W", "patch", "change counter := 0xfffffffe")
					w.C.Note("-- file change counter (offsets 24, 92) := 0xfffffffe")
				}
			}
			w.Refresh()
			w.Begin()
			w.InsertRows(t.Name, 1+s.Draw(5, "nwrap"))
			w.Commit()
		}
	case 15: // VACUUM into another page size: the whole file is rebuilt under open handles
		np := w.Prof.PageSizes[s.Draw(len(w.Prof.PageSizes), "newpagesize")]
		w.Exec(fmt.Sprintf("PRAGMA page_size=%d", np))
		if w.Exec("VACUUM") {
			if v, _, err := w.W.Query(w.Conn, "PRAGMA page_size"); err == nil && len(v) == 1 {
				if n, ok := v[0][0].(int64); ok {
					if int(n) != w.PageSz {
						w.C.Probe("vacuum-changed-page-size")
					}
					w.PageSz = int(n)
				}
			}
		}
		w.Refresh()
	case 14: // ANALYZE creates sqlite_stat1 (an internal table)
		w.Exec("ANALYZE")
		w.Refresh()
		w.C.Probe("analyze")
	case 12: // drop column
		cols := t.ColNames()
		if len(cols) > 1 {
			c := cols[s.Draw(len(cols), "dropcol")]
			w.Begin()
			w.Exec("ALTER TABLE " + gen.Quote(t.Name) + " DROP COLUMN " + gen.Quote(c))
			w.Commit()
		}
	}
}

// Build creates the initial tables.
func (w *World) Build() {
	w.Refresh()
	n := 1 + w.S.Draw(w.Prof.MaxTables, "ntables")
	if w.Prof.MaxTables >= 20 {
		n = w.Prof.MaxTables/2 + w.S.Draw(w.Prof.MaxTables/2, "ntables-many")
	}
	for i := 0; i < n; i++ {
		w.CreateTable()
	}
	if w.Snap != nil && len(w.Snap.Tables) == 0 {
		// SQLite rejected every generated definition: an empty database (schema format 0)
		// is outside what sqlittle reads; make sure there is at least one table
		w.Begin()
		w.Exec("CREATE TABLE tfb (a INTEGER PRIMARY KEY, b TEXT, c)")
		w.Commit()
		w.Begin()
		w.InsertRows("tfb", 5+w.S.Draw(20, "fbrows"))
		w.Commit()
	}
}

// Scratch returns a fresh per-run directory on a RAM disk.
func Scratch(tag string) (string, error) {
	base := "/dev/shm"
	if st, err := os.Stat(base); err != nil || !st.IsDir() {
		base = os.TempDir()
	}
	return os.MkdirTemp(base, "verif-"+tag+"-")
}

var hostileSQL = []string{
	"CREATE TABLE x (a, PRIMARY KEY(nope))",
	"CREATE TABLE x (a, b, PRIMARY KEY(a+1))",
	"CREATE TABLE x (a, b, PRIMARY KEY(nope)) WITHOUT ROWID",
	"CREATE TABLE x (a, b, UNIQUE(zz))",
	"CREATE TABLE x (a, b, UNIQUE(zz), PRIMARY KEY(b, qq)) WITHOUT ROWID",
	"CREATE TABLE x (a PRIMARY KEY, b, UNIQUE(lower(b)))",
	"CREATE TABLE x (\"a",
	"CREATE TABLE x ('a' 'b')",
	"CREATE TABLE x (é, b)",
	"CREATE TABLE x (a DEFAULT 99999999999999999999)",
	"CREATE TABLE x (a DEFAULT 0x)",
	"CREATE TABLE x (a DEFAULT 1e999999)",
	"CREATE TABLE x (a DEFAULT .)",
	"CREATE TABLE x (a, b) WITHOUT ROWID",
	"CREATE TABLE x ()",
	"CREATE TABLE x (a INTEGER PRIMARY KEY, a INTEGER PRIMARY KEY)",
	"CREATE TABLE x (a, FOREIGN KEY (zz) REFERENCES y)",
	"CREATE INDEX i ON x (nope)",
	"CREATE INDEX i ON x ()",
	"CREATE INDEX i ON x (a) WHERE",
	"CREATE UNIQUE INDEX i ON nosuch (a, b DESC)",
	"SELECT * FROM x",
	"SELECT",
	"",
	" ",
	"CREATE",
	"CREATE TABLE",
	"CREATE TABLE x",
	"CREATE TABLE x (a CHECK (((((((((((((((((((((((((((((((((((((((((((((((((1",
	"CREATE TABLE x (a DEFAULT '''''''''''''''''''''''''''''''''''''''')",
	"CREATE TABLE x (a, b, c, PRIMARY KEY (c, a, c, a)) WITHOUT ROWID",
	"\xff\xfe\x00CREATE",
	"CREATE TABLE x (a \x00 b)",
	"CREATE TABLE x (a -)",
	"CREATE TABLE x (a DEFAULT - - - 1)",
	"CREATE TABLE x (a INTEGER PRIMARY KEY) WITHOUT ROWID",
	"create table x (rowid, oid, _rowid_)",
	"CREATE TABLE x (a, b, PRIMARY KEY (rowid))",
	"CREATE TABLE x (a, a, b, PRIMARY KEY (a)) WITHOUT ROWID",
	"CREATE TABLE x (a, A, b, c, PRIMARY KEY (A, c)) WITHOUT ROWID",
	"CREATE TABLE x (a, b, a, PRIMARY KEY (b)) WITHOUT ROWID",
	"CREATE TABLE x (a, b, b, b, UNIQUE (b))",
	"CREATE TABLE x (a PRIMARY KEY, b, c, d, e, f, g) WITHOUT ROWID",
	"CREATE TABLE x (a PRIMARY KEY) WITHOUT ROWID",
	"CREATE INDEX i ON x (a, a, a)",
	"CREATE TABLE x (a, b, PRIMARY KEY (b, b, a, b)) WITHOUT ROWID",
}

// Hostile rewrites sqlite_master through PRAGMA writable_schema (real SQLite does
// the record encoding, the file stays structurally well formed).
func (w *World) Hostile() string {
	s := w.S
	if w.Snap == nil || len(w.Snap.Master) == 0 {
		return ""
	}
	w.Exec("PRAGMA writable_schema=ON")
	m := w.Snap.Master[s.Draw(len(w.Snap.Master), "victim")]
	desc := ""
	if s.Chance(1, 40, "hostile-long-literal") {
		// a string literal of some twenty megabytes made of doubled quotes: legal SQL text, and
		// a tokenizer that recurses per doubled quote runs out of stack (a fatal error no
		// recover() catches)
		n := 9000000 + s.Draw(1000000, "nquotes")
		sql := "CREATE TABLE x (a DEFAULT '" + strings.Repeat("''", n) + "')"
		w.Exec("UPDATE sqlite_master SET sql = CAST(? AS TEXT) WHERE name = ?", []byte(sql), m.Name)
		desc = fmt.Sprintf("sqlite_master.sql of %s := CREATE TABLE x (a DEFAULT '<%d doubled quotes>')", m.Name, n)
		w.C.Note("hostile schema: %s", desc)
		w.C.Probe("hostile-long-literal")
		return desc
	}
	if s.Chance(1, 40, "hostile-deep-expression") {
		// an index on an expression of hundreds of thousands of terms (SQLite itself refuses anything
		// deeper than 1000): a reader that turns the parsed expression back into text by
		// recursion runs out of stack
		tbl := m.TblName
		if tbl == "" {
			tbl = m.Name
		}
		// (three million terms end in a stack overflow; a tenth of that already keeps the
		// recursive, concatenating AsString busy for minutes, which the watchdog reports -
		// and leaves the fixed reader with a parse of a few hundred kilobytes)
		n := 300000 + s.Draw(50000, "nterms")
		var sql string
		if s.Chance(1, 2, "nested-calls") {
			n /= 2
			sql = "CREATE INDEX hx ON " + gen.Quote(tbl) + " (" + strings.Repeat("abs(", n) + "1" + strings.Repeat(")", n) + ")"
			desc = fmt.Sprintf("extra sqlite_master row: index hx on %s (abs(abs(... %d calls ...)))", tbl, n)
		} else {
			sql = "CREATE INDEX hx ON " + gen.Quote(tbl) + " (1" + strings.Repeat("+1", n) + ")"
			desc = fmt.Sprintf("extra sqlite_master row: index hx on %s (1+1+... %d terms)", tbl, n)
		}
		w.Exec("INSERT INTO sqlite_master VALUES ('index', 'hx', ?, ?, CAST(? AS TEXT))", tbl, int64(m.Rootpage), []byte(sql))
		w.C.Note("hostile schema: %s", desc)
		w.C.Probe("hostile-deep-expression")
		return desc
	}
	switch s.Draw(7, "hostilekind") {
	case 0, 1: // hostile SQL text on a real object
		sql := hostileSQL[s.Draw(len(hostileSQL), "hsql")]
		w.Exec("UPDATE sqlite_master SET sql = CAST(? AS TEXT) WHERE name = ?", []byte(sql), m.Name)
		desc = fmt.Sprintf("sqlite_master.sql of %s := %q", m.Name, sql)
	case 2: // the real SQL, cut or with a byte changed
		if m.SQL != nil && len(*m.SQL) > 0 {
			b := []byte(*m.SQL)
			if s.Chance(1, 2, "cut") {
				b = b[:s.Draw(len(b), "cutat")]
			} else {
				b[s.Draw(len(b), "pos")] = byte(s.Draw(256, "byte"))
			}
			w.Exec("UPDATE sqlite_master SET sql = CAST(? AS TEXT) WHERE name = ?", b, m.Name)
			desc = fmt.Sprintf("sqlite_master.sql of %s := %q", m.Name, string(b))
		}
	case 3: // root page
		rp := []int64{0, 1, -1, int64(m.Rootpage), 2, 1 << 31, 1 << 40, int64(w.Snap.PragmaInt("page_count")) + 1, 3}[s.Draw(9, "rootpage")]
		other := w.Snap.Master[s.Draw(len(w.Snap.Master), "other")]
		if s.Chance(1, 2, "swaproot") {
			rp = int64(other.Rootpage)
		}
		w.Exec("UPDATE sqlite_master SET rootpage = ? WHERE name = ?", rp, m.Name)
		desc = fmt.Sprintf("sqlite_master.rootpage of %s := %d", m.Name, rp)
	case 4: // type swap
		ty := []string{"index", "table", "view", "trigger", "", "TABLE"}[s.Draw(6, "type")]
		w.Exec("UPDATE sqlite_master SET type = ? WHERE name = ?", ty, m.Name)
		desc = fmt.Sprintf("sqlite_master.type of %s := %q", m.Name, ty)
	case 5: // odd storage classes in the row
		col := []string{"type", "name", "tbl_name", "rootpage", "sql"}[s.Draw(5, "col")]
		v := gen.Value(s, gen.DefaultMix)
		w.Exec("UPDATE sqlite_master SET "+col+" = ? WHERE name = ?", v, m.Name)
		desc = fmt.Sprintf("sqlite_master.%s of %s := %s", col, m.Name, sq.FmtVal(v))
	default: // an extra object
		sql := hostileSQL[s.Draw(len(hostileSQL), "hsql")]
		w.Exec("INSERT INTO sqlite_master VALUES ('table', 'x', 'x', ?, CAST(? AS TEXT))", int64(m.Rootpage), []byte(sql))
		desc = fmt.Sprintf("extra sqlite_master row x root=%d sql=%q", m.Rootpage, sql)
	}
	w.C.Note("hostile schema: %s", desc)
	return desc
}

// Package ops is a uniform way to run every public read operation of sqlittle
// on a handle and collect what it delivered.
package ops

import (
	"fmt"
	"runtime/debug"
	"strings"

	"github.com/alicebob/sqlittle"
	sdb "github.com/alicebob/sqlittle/db"

	"verif/sq"
)

type Op struct {
	Kind   string // see Run
	Table  string
	Index  string
	Cols   []string
	Key    sqlittle.Key
	Rowid  int64
	From   sdb.Key
	To     sdb.Key
	StopAt int  // >0: callback asks to stop after this many rows (where the API allows)
	Lock   bool // low level ops: take RLock/RUnlock around
	Scan   bool // additionally run Row.Scan/ScanStrings on every delivered row
	MaxRows int // >0: abort the operation (harness-side unwinding) once this many rows were delivered
}

type rowCap struct{}

func (o Op) String() string {
	s := o.Kind
	if o.Table != "" {
		s += " t=" + o.Table
	}
	if o.Index != "" {
		s += " ix=" + o.Index
	}
	if len(o.Cols) > 0 {
		s += " cols=" + strings.Join(o.Cols, ",")
	}
	if o.Key != nil {
		s += " key=" + FmtKey(o.Key)
	}
	if o.Kind == "rowid" || o.Kind == "trowid" {
		s += fmt.Sprintf(" rowid=%d", o.Rowid)
	}
	if o.From != nil {
		s += " from=" + FmtDbKey(o.From)
	}
	if o.To != nil {
		s += " to=" + FmtDbKey(o.To)
	}
	if o.StopAt > 0 {
		s += fmt.Sprintf(" stop@%d", o.StopAt)
	}
	return s
}

func FmtKey(k sqlittle.Key) string {
	var p []string
	for _, v := range k {
		p = append(p, sq.FmtVal(v))
	}
	return "[" + strings.Join(p, " ") + "]"
}

func FmtDbKey(k sdb.Key) string {
	var p []string
	for _, c := range k {
		s := sq.FmtVal(c.V)
		if c.Collate != "" {
			s += "/" + c.Collate
		}
		if c.Desc {
			s += "/desc"
		}
		p = append(p, s)
	}
	return "[" + strings.Join(p, " ") + "]"
}

type Result struct {
	Rows      [][]sq.Val
	Strs      []string // for columns/tables/indexes/info
	Schema    *sdb.Schema
	Err       error
	Panic     interface{}
	Stack     string
	Calls     int  // callback invocations
	CallAfterStop int
	NilRow    bool // rowid lookups: not found
	RowCap    bool // MaxRows reached; the operation was unwound by the harness
}

// Hook is called at the start of every callback invocation (i = 0-based row
// index); it may park, panic, close handles...
type Hook func(i int)

func cp(v sq.Val) sq.Val {
	if b, ok := v.([]byte); ok {
		return append([]byte{}, b...)
	}
	return v
}

func cprow(r []interface{}) []sq.Val {
	out := make([]sq.Val, len(r))
	for i, v := range r {
		out[i] = cp(v)
	}
	return out
}

// Run executes op on the handle. Panics of the system under test are recovered
// and reported in Result.Panic (the harness' own hooks may panic on purpose:
// those are re-reported the same way; callers know what they injected).
func Run(d *sqlittle.DB, op Op, hook Hook) (res Result) {
	defer func() {
		if r := recover(); r != nil {
			if _, ok := r.(rowCap); ok {
				res.RowCap = true
				return
			}
			res.Panic = r
			res.Stack = string(debug.Stack())
		}
	}()
	low := d.VerifLow()
	stopped := false
	rowcb := func(row sqlittle.Row) bool {
		if stopped {
			res.CallAfterStop++
		}
		if hook != nil {
			hook(res.Calls)
		}
		res.Calls++
		if op.MaxRows > 0 && res.Calls > op.MaxRows {
			panic(rowCap{})
		}
		res.Rows = append(res.Rows, cprow(row))
		if op.Scan {
			scanAll(row)
		}
		if op.StopAt > 0 && res.Calls >= op.StopAt {
			stopped = true
			return true
		}
		return false
	}
	reccb := func(rec sdb.Record) bool {
		return rowcb(sqlittle.Row(rec))
	}
	plain := func(row sqlittle.Row) { rowcb(row) }
	if op.Lock {
		if err := low.RLock(); err != nil {
			res.Err = err
			return
		}
		defer low.RUnlock()
	}
	switch op.Kind {
	case "select":
		res.Err = d.Select(op.Table, plain, op.Cols...)
	case "selectdone":
		res.Err = d.SelectDone(op.Table, rowcb, op.Cols...)
	case "rowid":
		row, err := d.SelectRowid(op.Table, op.Rowid, op.Cols...)
		res.Err = err
		if row != nil {
			res.Rows = append(res.Rows, cprow(row))
			if op.Scan {
				scanAll(row)
			}
		} else {
			res.NilRow = true
		}
	case "ixselect":
		res.Err = d.IndexedSelect(op.Table, op.Index, plain, op.Cols...)
	case "ixeq":
		res.Err = d.IndexedSelectEq(op.Table, op.Index, op.Key, plain, op.Cols...)
	case "pk":
		res.Err = d.PKSelect(op.Table, op.Key, plain, op.Cols...)
	case "columns":
		res.Strs, res.Err = d.Columns(op.Table)
	// ---- low level
	case "tables":
		res.Strs, res.Err = low.Tables()
	case "indexes":
		res.Strs, res.Err = low.Indexes()
	case "schema":
		res.Schema, res.Err = low.Schema(op.Table)
	case "info":
		var s string
		s, res.Err = low.Info()
		res.Strs = []string{s}
	case "tdef":
		t, err := low.Table(op.Table)
		if err != nil {
			res.Err = err
			return
		}
		_, res.Err = t.Def()
	case "idef":
		t, err := low.Index(op.Index)
		if err != nil {
			res.Err = err
			return
		}
		_, res.Err = t.Def()
	case "tscan":
		t, err := low.Table(op.Table)
		if err != nil {
			res.Err = err
			return
		}
		res.Err = t.Scan(func(rowid int64, rec sdb.Record) bool {
			return rowcb(append(sqlittle.Row{rowid}, rec...))
		})
	case "trowid":
		t, err := low.Table(op.Table)
		if err != nil {
			res.Err = err
			return
		}
		rec, err := t.Rowid(op.Rowid)
		res.Err = err
		if rec != nil {
			res.Rows = append(res.Rows, cprow(rec))
		} else {
			res.NilRow = true
		}
	case "iscan", "iscanmin", "iscaneq", "iscanrange":
		var ix *sdb.Index
		var err error
		if op.Index != "" {
			ix, err = low.Index(op.Index)
		} else {
			ix, err = low.NonRowidTable(op.Table)
		}
		if err != nil {
			res.Err = err
			return
		}
		switch op.Kind {
		case "iscan":
			res.Err = ix.Scan(reccb)
		case "iscanmin":
			res.Err = ix.ScanMin(op.From, reccb)
		case "iscaneq":
			res.Err = ix.ScanEq(op.From, reccb)
		case "iscanrange":
			res.Err = ix.ScanRange(op.From, op.To, reccb)
		}
	default:
		panic("ops: unknown kind " + op.Kind)
	}
	return
}

func scanAll(row sqlittle.Row) {
	row.ScanStrings()
	for i := range row {
		args := make([]interface{}, i+1)
		var s string
		var b []byte
		var n int64
		var f float64
		var bo bool
		switch i % 5 {
		case 0:
			args[i] = &s
		case 1:
			args[i] = &b
		case 2:
			args[i] = &n
		case 3:
			args[i] = &f
		case 4:
			args[i] = &bo
		}
		row.Scan(args...)
	}
}

// OpenMem opens a high level handle on a caller supplied pager.
func OpenPager(p sdb.VerifPager, journal string) (*sqlittle.DB, error) {
	low, err := sdb.VerifOpen(p, journal)
	if err != nil {
		return nil, err
	}
	return sqlittle.VerifWrap(low), nil
}

// Package sq talks to py/sqlite_worker.py: real SQLite as writer and reference.
package sq

import (
	"bufio"
	"encoding/hex"
	"encoding/json"
	"fmt"
	"io"
	"math"
	"os"
	"os/exec"
	"path/filepath"
	"strconv"
)

// Val is one of nil, int64, float64, string (TEXT, raw bytes), []byte (BLOB).
type Val = interface{}

func EncVal(v Val) []string {
	switch x := v.(type) {
	case nil:
		return []string{"n"}
	case int64:
		return []string{"i", strconv.FormatInt(x, 10)}
	case int:
		return []string{"i", strconv.Itoa(x)}
	case float64:
		return []string{"r", fmt.Sprintf("%016x", math.Float64bits(x))}
	case string:
		return []string{"t", hex.EncodeToString([]byte(x))}
	case []byte:
		return []string{"b", hex.EncodeToString(x)}
	}
	panic(fmt.Sprintf("EncVal: %T", v))
}

func DecVal(e []string) (Val, error) {
	if len(e) == 0 {
		return nil, fmt.Errorf("empty value")
	}
	switch e[0] {
	case "n":
		return nil, nil
	case "i":
		n, err := strconv.ParseInt(e[1], 10, 64)
		return n, err
	case "r":
		u, err := strconv.ParseUint(e[1], 16, 64)
		return math.Float64frombits(u), err
	case "t":
		b, err := hex.DecodeString(e[1])
		return string(b), err
	case "b":
		b, err := hex.DecodeString(e[1])
		if b == nil {
			b = []byte{}
		}
		return b, err
	}
	return nil, fmt.Errorf("bad value tag %q", e[0])
}

func DecRow(r [][]string) ([]Val, error) {
	out := make([]Val, len(r))
	for i, e := range r {
		v, err := DecVal(e)
		if err != nil {
			return nil, err
		}
		out[i] = v
	}
	return out, nil
}

// FmtVal renders a value for logs (deterministic, exact).
func FmtVal(v Val) string {
	switch x := v.(type) {
	case nil:
		return "NULL"
	case int64:
		return "i:" + strconv.FormatInt(x, 10)
	case float64:
		return fmt.Sprintf("r:%016x(%g)", math.Float64bits(x), x)
	case string:
		if len(x) > 40 {
			return fmt.Sprintf("t[%d]:%q..", len(x), x[:24])
		}
		return fmt.Sprintf("t:%q", x)
	case []byte:
		if len(x) > 24 {
			return fmt.Sprintf("b[%d]:%x..", len(x), x[:16])
		}
		return fmt.Sprintf("b:%x", x)
	}
	return fmt.Sprintf("?%T:%v", v, v)
}

func FmtRow(r []Val) string {
	s := "("
	for i, v := range r {
		if i > 0 {
			s += ", "
		}
		s += FmtVal(v)
	}
	return s + ")"
}

// Worker is one python process hosting any number of connections.
type Worker struct {
	cmd *exec.Cmd
	in  io.WriteCloser
	out *bufio.Reader
	Pid int
	Ver string
}

type Resp struct {
	OK       bool            `json:"ok"`
	Err      string          `json:"err"`
	Code     *int            `json:"code"`
	Name     string          `json:"name"`
	Fatal    bool            `json:"fatal"`
	Rows     [][][]string    `json:"rows"`
	Rowcount int             `json:"rowcount"`
	InTx     bool            `json:"intx"`
	Done     int             `json:"done"`
	Sqlite   string          `json:"sqlite"`
	Pid      int             `json:"pid"`
	Raw      json.RawMessage `json:"-"`
}

func (r *Resp) Busy() bool { return !r.OK && (r.Name == "SQLITE_BUSY" || r.Err == "database is locked") }

func ScriptPath() string {
	if p := os.Getenv("VERIF_DIR"); p != "" {
		return filepath.Join(p, "py", "sqlite_worker.py")
	}
	return "/verif/py/sqlite_worker.py"
}

func Start() (*Worker, error) {
	py := "/usr/bin/python3"
	if _, err := os.Stat(py); err != nil {
		py = "python3"
	}
	cmd := exec.Command(py, "-S", "-E", ScriptPath())
	cmd.Stderr = os.Stderr
	in, err := cmd.StdinPipe()
	if err != nil {
		return nil, err
	}
	out, err := cmd.StdoutPipe()
	if err != nil {
		return nil, err
	}
	if err := cmd.Start(); err != nil {
		return nil, err
	}
	w := &Worker{cmd: cmd, in: in, out: bufio.NewReaderSize(out, 1<<20)}
	r, err := w.Call(map[string]interface{}{"op": "ping"})
	if err != nil {
		return nil, err
	}
	w.Pid = r.Pid
	w.Ver = r.Sqlite
	return w, nil
}

func (w *Worker) Close() {
	if w == nil || w.cmd == nil {
		return
	}
	fmt.Fprintln(w.in, `{"op":"quit"}`)
	w.in.Close()
	w.cmd.Wait()
	w.cmd = nil
}

// CallRaw sends one request and returns the raw response line.
func (w *Worker) CallRaw(req map[string]interface{}) ([]byte, error) {
	b, err := json.Marshal(req)
	if err != nil {
		return nil, err
	}
	b = append(b, '\n')
	if _, err := w.in.Write(b); err != nil {
		return nil, fmt.Errorf("sqlite worker write: %w", err)
	}
	line, err := w.out.ReadBytes('\n')
	if err != nil {
		return nil, fmt.Errorf("sqlite worker read: %w", err)
	}
	return line, nil
}

func (w *Worker) Call(req map[string]interface{}) (*Resp, error) {
	line, err := w.CallRaw(req)
	if err != nil {
		return nil, err
	}
	r := &Resp{}
	if err := json.Unmarshal(line, r); err != nil {
		return nil, fmt.Errorf("sqlite worker: bad response: %v", err)
	}
	r.Raw = line
	if r.Fatal {
		return r, fmt.Errorf("sqlite worker: %s", r.Err)
	}
	return r, nil
}

func (w *Worker) Open(id, path string, pragmas ...string) error {
	r, err := w.Call(map[string]interface{}{"op": "open", "id": id, "path": path, "pragmas": pragmas})
	if err != nil {
		return err
	}
	if !r.OK {
		return fmt.Errorf("open: %s", r.Err)
	}
	return nil
}

func (w *Worker) CloseConn(id string) {
	w.Call(map[string]interface{}{"op": "close", "id": id})
}

func encParams(ps []Val) [][]string {
	out := make([][]string, len(ps))
	for i, p := range ps {
		out[i] = EncVal(p)
	}
	return out
}

func (w *Worker) Exec(id, sql string, params ...Val) (*Resp, error) {
	return w.Call(map[string]interface{}{"op": "exec", "id": id, "sql": sql, "params": encParams(params)})
}

func (w *Worker) Query(id, sql string, params ...Val) ([][]Val, *Resp, error) {
	r, err := w.Call(map[string]interface{}{"op": "exec", "id": id, "sql": sql, "params": encParams(params), "rows": true})
	if err != nil || !r.OK {
		return nil, r, err
	}
	rows := make([][]Val, len(r.Rows))
	for i, rr := range r.Rows {
		rows[i], err = DecRow(rr)
		if err != nil {
			return nil, r, err
		}
	}
	return rows, r, nil
}

// Typed runs "SELECT exprs..., typeof(exprs)... <tail>" and returns storage-class exact rows.
func (w *Worker) Typed(id string, exprs []string, tail string, params ...Val) ([][]Val, *Resp, error) {
	r, err := w.Call(map[string]interface{}{"op": "typed", "id": id, "exprs": exprs, "tail": tail, "params": encParams(params)})
	if err != nil || !r.OK {
		return nil, r, err
	}
	rows := make([][]Val, len(r.Rows))
	for i, rr := range r.Rows {
		rows[i], err = DecRow(rr)
		if err != nil {
			return nil, r, err
		}
	}
	return rows, r, nil
}

type Stmt struct {
	SQL    string
	Params []Val
}

func (w *Worker) Script(id string, stmts []Stmt) (*Resp, error) {
	ss := make([][]interface{}, len(stmts))
	for i, s := range stmts {
		ss[i] = []interface{}{s.SQL, encParams(s.Params)}
	}
	return w.Call(map[string]interface{}{"op": "script", "id": id, "stmts": ss})
}

// FmtRowExact renders a row exactly (no truncation), for content hashes.
func FmtRowExact(r []Val) string {
	s := ""
	for _, v := range r {
		switch x := v.(type) {
		case nil:
			s += "N|"
		case int64:
			s += "i" + strconv.FormatInt(x, 10) + "|"
		case float64:
			s += fmt.Sprintf("r%016x|", math.Float64bits(x))
		case string:
			s += "t" + hex.EncodeToString([]byte(x)) + "|"
		case []byte:
			s += "b" + hex.EncodeToString(x) + "|"
		}
	}
	return s + ";"
}

package sq

import (
	"verif/fold"
	"encoding/json"
	"fmt"
)

type Column struct {
	Cid     int     `json:"cid"`
	Name    string  `json:"name"`
	Type    string  `json:"type"`
	NotNull int     `json:"notnull"`
	Dflt    *string `json:"dflt"`
	PK      int     `json:"pk"`
	Hidden  int     `json:"hidden"`
}

type XInfo struct {
	Seqno int     `json:"seqno"`
	Cid   int     `json:"cid"`
	Name  *string `json:"name"`
	Desc  int     `json:"desc"`
	Coll  string  `json:"coll"`
	Key   int     `json:"key"`
}

type rawEntry struct {
	Pos  int
	Keys [][]string
}

func (e *rawEntry) UnmarshalJSON(b []byte) error {
	var a []json.RawMessage
	if err := json.Unmarshal(b, &a); err != nil {
		return err
	}
	if len(a) != 2 {
		return fmt.Errorf("bad entry")
	}
	if err := json.Unmarshal(a[0], &e.Pos); err != nil {
		return err
	}
	return json.Unmarshal(a[1], &e.Keys)
}

type Entry struct {
	Pos  int   // position of the row in Table.Rows (-1: unknown)
	Vals []Val // all xinfo columns (key columns first, then appended rowid / pk columns)
}

type Index struct {
	Name       string     `json:"name"`
	Unique     int        `json:"unique"`
	Origin     string     `json:"origin"`
	Partial    int        `json:"partial"`
	XInfo      []XInfo    `json:"xinfo"`
	RawEntries []rawEntry `json:"entries"`
	EntriesErr string     `json:"entries_err"`
	Entries    []Entry    `json:"-"` // nil when not computable (expression/partial index without hints)
	HasEntries bool       `json:"-"`
}

func (ix *Index) NKey() int {
	n := 0
	for _, x := range ix.XInfo {
		if x.Key != 0 {
			n++
		}
	}
	return n
}

type Table struct {
	Name         string       `json:"name"`
	WithoutRowid bool         `json:"without_rowid"`
	Columns      []Column     `json:"columns"`
	Indexes      []*Index     `json:"indexes"`
	RawRows      [][][]string `json:"rows"`
	RawRowids    []string     `json:"rowids"`
	RowidAlias   *string      `json:"rowid_alias"`
	Rows         [][]Val      `json:"-"`
	Rowids       []int64      `json:"-"`
	HasRows      bool         `json:"-"`
}

// VisibleColumns are the non-hidden columns, in definition order (what SELECT * gives).
func (t *Table) ColNames() []string {
	var out []string
	for _, c := range t.Columns {
		if c.Hidden == 0 {
			out = append(out, c.Name)
		}
	}
	return out
}

// DeclaredColNames are all columns of the definition, generated ones included
// (hidden 2 = VIRTUAL, not stored; hidden 3 = STORED), in definition order.
func (t *Table) DeclaredColNames() []string {
	var out []string
	for _, c := range t.Columns {
		if c.Hidden != 1 {
			out = append(out, c.Name)
		}
	}
	return out
}

// HasVirtualGenerated reports a generated column that is not stored in the row.
func (t *Table) HasVirtualGenerated() bool {
	for _, c := range t.Columns {
		if c.Hidden == 2 {
			return true
		}
	}
	return false
}

func (t *Table) ColIndex(name string) int {
	i := 0
	for _, c := range t.Columns {
		if c.Hidden != 0 {
			continue
		}
		if fold.Equal(c.Name, name) {
			return i
		}
		i++
	}
	return -1
}

type Master struct {
	Type     string  `json:"type"`
	Name     string  `json:"name"`
	TblName  string  `json:"tbl_name"`
	Rootpage int     `json:"rootpage"`
	SQL      *string `json:"sql"`
}

type DbStat struct {
	Pages    int `json:"pages"`
	Overflow int `json:"overflow"`
	Internal int `json:"internal"`
	Depth    int `json:"depth"`
}

type Snapshot struct {
	OK      bool                       `json:"ok"`
	Err     string                     `json:"err"`
	Name    string                     `json:"name"`
	Fatal   bool                       `json:"fatal"`
	Pragmas map[string]interface{}     `json:"pragmas"`
	Master  []Master                   `json:"master"`
	Tables  []*Table                   `json:"tables"`
	DbStat  map[string]json.RawMessage `json:"dbstat"`
	Stat    map[string]DbStat          `json:"-"`
}

func (s *Snapshot) Table(name string) *Table {
	for _, t := range s.Tables {
		if fold.Equal(t.Name, name) {
			return t
		}
	}
	return nil
}

func (s *Snapshot) PragmaInt(k string) int {
	switch v := s.Pragmas[k].(type) {
	case float64:
		return int(v)
	}
	return 0
}

// Snapshot reads the whole committed content and schema through connection id.
// hints: lower-case index name -> {"where": text, "exprs": {seqno: text}}.
func (w *Worker) Snapshot(id string, hints map[string]interface{}, dbstat bool) (*Snapshot, error) {
	line, err := w.CallRaw(map[string]interface{}{"op": "snapshot", "id": id, "hints": hints, "dbstat": dbstat})
	if err != nil {
		return nil, err
	}
	s := &Snapshot{}
	if err := json.Unmarshal(line, s); err != nil {
		return nil, fmt.Errorf("snapshot decode: %v", err)
	}
	if s.Fatal {
		return nil, fmt.Errorf("sqlite worker: %s", s.Err)
	}
	if !s.OK {
		return s, nil
	}
	s.Stat = map[string]DbStat{}
	for k, raw := range s.DbStat {
		var d DbStat
		if json.Unmarshal(raw, &d) == nil {
			s.Stat[k] = d
		}
	}
	for _, t := range s.Tables {
		if t.RawRows != nil {
			t.HasRows = true
			t.Rows = make([][]Val, len(t.RawRows))
			for i, r := range t.RawRows {
				t.Rows[i], err = DecRow(r)
				if err != nil {
					return nil, err
				}
			}
			t.RawRows = nil
		}
		if t.RawRowids != nil {
			t.Rowids = make([]int64, len(t.RawRowids))
			for i, r := range t.RawRowids {
				fmt.Sscan(r, &t.Rowids[i])
			}
			t.RawRowids = nil
		}
		for _, ix := range t.Indexes {
			if ix.RawEntries != nil {
				ix.HasEntries = true
				ix.Entries = make([]Entry, len(ix.RawEntries))
				for i, e := range ix.RawEntries {
					vals, err := DecRow(e.Keys)
					if err != nil {
						return nil, err
					}
					ix.Entries[i] = Entry{Pos: e.Pos, Vals: vals}
				}
				ix.RawEntries = nil
			}
		}
	}
	return s, nil
}

// Package refcmp is an independent implementation of SQLite's value order,
// validated against real SQLite by `simv refcheck` (part of setup).
package refcmp

import (
	"bytes"
	"math"
	"math/big"
)

// class rank: NULL < numbers < text < blob
func rank(v interface{}) int {
	switch v.(type) {
	case nil:
		return 0
	case int64, float64:
		return 1
	case string:
		return 2
	case []byte:
		return 3
	}
	panic("refcmp: bad type")
}

// cmpIntFloat compares exactly, without converting the integer to float.
func cmpIntFloat(i int64, f float64) int {
	if math.IsNaN(f) {
		return 1 // NaN is stored as NULL by SQLite; never reached with stored values
	}
	if math.IsInf(f, 1) {
		return -1
	}
	if math.IsInf(f, -1) {
		return 1
	}
	// exact: both as big rationals
	bf := new(big.Float).SetPrec(2000).SetFloat64(f)
	bi := new(big.Float).SetPrec(2000).SetInt64(i)
	return bi.Cmp(bf)
}

func foldNoCase(b []byte) []byte {
	out := make([]byte, len(b))
	for i, c := range b {
		if c >= 'A' && c <= 'Z' {
			c += 'a' - 'A'
		}
		out[i] = c
	}
	return out
}

func rtrim(b []byte) []byte {
	n := len(b)
	for n > 0 && b[n-1] == ' ' {
		n--
	}
	return b[:n]
}

// Compare a and b under collation coll ("", "binary", "nocase", "rtrim"; any case).
func Compare(a, b interface{}, coll string) int {
	ra, rb := rank(a), rank(b)
	if ra != rb {
		if ra < rb {
			return -1
		}
		return 1
	}
	switch x := a.(type) {
	case nil:
		return 0
	case int64:
		switch y := b.(type) {
		case int64:
			switch {
			case x < y:
				return -1
			case x > y:
				return 1
			}
			return 0
		case float64:
			return cmpIntFloat(x, y)
		}
	case float64:
		switch y := b.(type) {
		case int64:
			return -cmpIntFloat(y, x)
		case float64:
			switch {
			case x < y:
				return -1
			case x > y:
				return 1
			}
			return 0
		}
	case string:
		y := b.(string)
		xb, yb := []byte(x), []byte(y)
		switch lower(coll) {
		case "nocase":
			// SQLite: sqlite3_strnicmp over the common length - which stops at the first
			// difference AND at a NUL in the left string - then the length decides
			n := len(xb)
			if len(yb) < n {
				n = len(yb)
			}
			fx, fy := foldNoCase(xb[:n]), foldNoCase(yb[:n])
			for i := 0; i < n; i++ {
				if fx[i] == 0 || fx[i] != fy[i] {
					if d := int(fx[i]) - int(fy[i]); d != 0 {
						if d < 0 {
							return -1
						}
						return 1
					}
					break // a NUL in both: equal as far as strnicmp looks
				}
			}
			switch {
			case len(xb) < len(yb):
				return -1
			case len(xb) > len(yb):
				return 1
			}
			return 0
		case "rtrim":
			xb, yb = rtrim(xb), rtrim(yb)
		}
		return bytes.Compare(xb, yb)
	case []byte:
		return bytes.Compare(x, b.([]byte))
	}
	panic("refcmp: unreachable")
}

func lower(s string) string {
	b := []byte(s)
	for i, c := range b {
		if c >= 'A' && c <= 'Z' {
			b[i] = c + 32
		}
	}
	return string(b)
}

// Col describes one key column of an index order.
type Col struct {
	Coll string
	Desc bool
}

// CompareKey compares record rec with key on the first len(key) columns in the
// index's order (DESC columns reversed). A record that runs out of columns
// first is smaller.
func CompareKey(rec []interface{}, key []interface{}, cols []Col) int {
	for i, k := range key {
		if i >= len(rec) {
			return -1
		}
		var c Col
		if i < len(cols) {
			c = cols[i]
		}
		r := Compare(rec[i], k, c.Coll)
		if c.Desc {
			r = -r
		}
		if r != 0 {
			return r
		}
	}
	return 0
}

// EqualKey: all key columns compare equal.
func EqualKey(rec []interface{}, key []interface{}, cols []Col) bool {
	if len(rec) < len(key) {
		return false
	}
	for i, k := range key {
		var c Col
		if i < len(cols) {
			c = cols[i]
		}
		if Compare(rec[i], k, c.Coll) != 0 {
			return false
		}
	}
	return true
}

package gen

import (
	"fmt"
	"strings"

	"verif/fold"

	"verif/sim"
)

var typeNames = []string{"INTEGER", "TEXT", "", "INT", "REAL", "BLOB", "NUMERIC", "integer", "VARCHAR(10)", "DECIMAL(10,5)", "BIGINT", "Integer", "CHAR", "DOUBLE", "FLOAT", "BOOLEAN", "DATETIME", "CLOB", "DOUBLE PRECISION", "UNSIGNED BIG INT"}

var plainColNames = []string{"a", "b", "c", "d", "e", "f", "g", "h", "k", "v", "w", "x", "y", "z", "name", "val", "id", "n", "t", "data"}
var oddColNames = []string{"rowid", "oid", "_rowid_", "é", "éa", "ünï", "É", "ÜNÏ", "ſ", "S", "K", "k", "a\u00a0b", "n\u3000m", "select", "key", "my col", "A", "Col", "index", "x y", "q\"q", "日本", "_", "a1", "desc", "replace", "ROWID", "a`b", "k`1", "br]ck", "q'q", "two  spaces", "ta\tb"}

var collations = []string{"BINARY", "NOCASE", "RTRIM", "nocase", "rtrim", "binary"}

// AppCollation lets the grammar use "mycoll", a collation the writer registers through
// sqlite3_create_collation (py/sqlite_worker.py). Only checks whose oracle does not need to
// order by it switch this on (C05).
var AppCollation bool

func drawCollation(s *sim.Src) string {
	if AppCollation && s.Chance(1, 4, "appcoll") {
		return "mycoll"
	}
	return collations[s.Draw(len(collations), "coll")]
}

// Ident renders a name in a drawn quoting style (style 0 = bare when possible).
func Ident(s *sim.Src, name string, fancy int) string {
	return identStyled(s, name, fancy)
}

// IdentRef renders a REFERENCE to an existing name (in a constraint or index):
// SQLite matches names case-insensitively, so the reference may be spelled in
// another letter case than the definition.
func IdentRef(s *sim.Src, name string, fancy int) string {
	if fancy > 0 && s.Chance(1, 6, "refcase") {
		// SQLite folds A-Z only: an ASCII-case variant still names the column ...
		if s.Chance(1, 2, "refupper") {
			name = fold.Upper(name)
		} else {
			name = fold.Lower(name)
		}
	} else if fancy > 0 && !fold.IsASCII(name) && s.Chance(1, 8, "refunicase") {
		// ... a variant in the case of a non-ASCII letter does NOT (for SQLite it is an
		// unknown column: the statement fails, or - double-quoted inside CREATE INDEX -
		// becomes a string literal, i.e. an expression index)
		if u := strings.ToUpper(name); u != name {
			name = u
		} else {
			name = strings.ToLower(name)
		}
	}
	if fancy >= 5 && s.Chance(1, 12, "refstring") {
		// a single-quoted string in an indexed-column list: SQLite reads it as a column name
		return "'" + strings.ReplaceAll(name, "'", "''") + "'"
	}
	return identStyled(s, name, fancy)
}

// IdentRefSame renders a reference that still names the same object for SQLite: only
// the case of ASCII letters and the quoting style vary.
func IdentRefSame(s *sim.Src, name string, fancy int) string {
	if fancy > 0 && s.Chance(1, 4, "refcase") {
		if s.Chance(1, 2, "refupper") {
			name = fold.Upper(name)
		} else {
			name = fold.Lower(name)
		}
	}
	return identStyled(s, name, fancy)
}

func identStyled(s *sim.Src, name string, fancy int) string {
	bare := isBare(name)
	style := 0
	if fancy > 0 && s.Chance(fancy, 10, "qstyle?") {
		style = 1 + s.Draw(3, "qstyle")
	}
	if !bare && style == 0 {
		style = 1
	}
	switch style {
	case 0:
		return name
	case 1:
		return `"` + strings.ReplaceAll(name, `"`, `""`) + `"`
	case 2:
		if strings.Contains(name, "]") {
			return `"` + strings.ReplaceAll(name, `"`, `""`) + `"`
		}
		return "[" + name + "]"
	default:
		return "`" + strings.ReplaceAll(name, "`", "``") + "`"
	}
}

var reserved = map[string]bool{"select": true, "key": false, "index": true, "desc": true, "replace": false, "table": true, "where": true, "order": true, "group": true, "primary": true, "unique": true, "check": true, "default": true, "collate": true, "references": true, "not": true, "null": true, "create": true, "from": true, "rowid": false, "oid": false, "without": false, "on": true, "is": true, "in": true, "and": true, "or": true, "set": true, "to": true, "add": true, "constraint": true, "foreign": true, "autoincrement": true, "asc": false, "no": false, "action": false, "cascade": false, "like": false, "glob": false, "match": false, "regexp": false}

func isBare(name string) bool {
	if name == "" {
		return false
	}
	if reserved[fold.Lower(name)] {
		return false
	}
	for i, r := range name {
		switch {
		case r == '_' || (r >= 'a' && r <= 'z') || (r >= 'A' && r <= 'Z') || r >= 0x80:
		case r >= '0' && r <= '9' && i > 0:
		default:
			return false
		}
	}
	return true
}

func Quote(name string) string { return `"` + strings.ReplaceAll(name, `"`, `""`) + `"` }

type colSpec struct {
	name string
	typ  string
}

func literal(s *sim.Src, exotic bool) string {
	k := s.Draw(15, "lit")
	if !exotic && (k == 5 || k == 10 || k == 13) && !s.Chance(1, 6, "floatdefault") {
		k = 1
	}
	switch k {
	case 12:
		return "TRUE"
	case 13:
		return "3.0"
	case 14:
		return "'1e3'"
	case 0:
		return "0"
	case 1:
		return "42"
	case 2:
		return "'x'"
	case 3:
		return "NULL"
	case 4:
		return "-5"
	case 5:
		return "1.5"
	case 6:
		return "'abc '"
	case 7:
		return "010"
	case 8:
		return "'12'"
	case 9:
		return "+7"
	case 10:
		return "x'6162'"
	default:
		return "'it''s'"
	}
}

// CreateTable produces CREATE TABLE text. fancy 0..10 controls exotic features.
func CreateTable(s *sim.Src, name string, fancy int, wantWithoutRowid bool, others []string) (string, []string) {
	ncols := 1 + s.Draw(5, "ncols")
	if s.Chance(1, 10, "widetable") {
		ncols = 8 + s.Draw(8, "ncolswide")
	}
	if fancy >= 8 && s.Chance(1, 12, "manycols") {
		ncols = 66 + s.Draw(10, "ncols66") // record header > 127 bytes
	}
	// exotic tables use constructs sqlittle's grammar is known to lack (they must be
	// rejected, never misread); the others stay inside what it claims to support
	exotic := fancy > 0 && s.Chance(fancy, 30, "exotic")
	used := map[string]bool{}
	var cols []colSpec
	for i := 0; i < ncols; i++ {
		var n string
		if fancy > 0 && s.Chance(fancy, 40, "oddname") {
			n = oddColNames[s.Draw(len(oddColNames), "oddcol")]
		} else if i < len(plainColNames) {
			n = plainColNames[s.Draw(len(plainColNames), "col")]
		} else {
			n = fmt.Sprintf("c%d", i)
		}
		for used[fold.Lower(n)] {
			n = fmt.Sprintf("%s%d", n, i)
		}
		used[fold.Lower(n)] = true
		tw := []int{8, 8, 3, 3, 3, 3, 2, 2, 1, 1, 1, 1, 1, 1, 1, 1, 1, 1, 0, 0}
		if exotic {
			tw[18], tw[19] = 3, 3
		}
		t := typeNames[s.Weighted(tw, "type")]
		cols = append(cols, colSpec{n, t})
	}
	// primary key plan: 0 none, 1 column constraint, 2 table constraint
	pkPlan := s.Weighted([]int{3, 5, 3}, "pkplan")
	if wantWithoutRowid && pkPlan == 0 {
		pkPlan = 1 + s.Draw(2, "pkplan2")
	}
	pkCol := s.Draw(len(cols), "pkcol")
	// (also for a table-level PRIMARY KEY: "id INTEGER, ..., PRIMARY KEY (id DESC)" is a
	// rowid alias in a rowid table and a descending integer key in a WITHOUT ROWID table)
	if (pkPlan == 1 && s.Chance(1, 2, "intpk")) || (pkPlan == 2 && s.Chance(1, 3, "intpk-table-level")) {
		n := 7
		if fancy >= 9 {
			// type arguments: only the schema check (C10) builds these, see known_findings.json
			n = 10
		}
		cols[pkCol].typ = []string{"INTEGER", "INTEGER", "integer", "INT", "Integer", "INTEGER UNSIGNED", "\"INTEGER\"", "INTEGER(10)", "INTEGER (8)", "INTEGER(4,2)"}[s.Draw(n, "intpkty")]
	}
	var defs []string
	var colNames []string
	for i, c := range cols {
		colNames = append(colNames, c.name)
		d := Ident(s, c.name, fancy)
		if c.typ != "" {
			d += " " + c.typ
		}
		var cons []string
		if pkPlan == 1 && i == pkCol {
			pk := "PRIMARY KEY"
			switch s.Weighted([]int{6, 2, 3}, "pkdir") {
			case 1:
				pk += " ASC"
			case 2:
				pk += " DESC"
			}
			autoinc := !wantWithoutRowid && fold.Equal(c.typ, "INTEGER") && !strings.Contains(pk, "DESC") && s.Chance(1, 5, "autoinc")
			if exotic && s.Chance(1, 3, "pkconfl") {
				pk += " ON CONFLICT REPLACE"
			}
			if autoinc {
				pk += " AUTOINCREMENT"
			}
			cons = append(cons, pk)
		}
		if s.Chance(1, 5, "unique") {
			cons = append(cons, "UNIQUE")
		}
		if s.Chance(1, 6, "notnull") {
			cons = append(cons, "NOT NULL")
		} else if fancy > 0 && s.Chance(1, 12, "null") {
			cons = append(cons, "NULL")
		}
		if s.Chance(1, 3, "collate") {
			cons = append(cons, "COLLATE "+drawCollation(s))
		}
		if s.Chance(1, 5, "default") {
			cons = append(cons, "DEFAULT "+literal(s, exotic))
		}
		if exotic && s.Chance(1, 3, "check") {
			cons = append(cons, fmt.Sprintf("CHECK (%s > -99999999 OR %s IS NULL)", Quote(c.name), Quote(c.name)))
		} else if fancy > 0 && s.Chance(fancy, 60, "check2") {
			cons = append(cons, fmt.Sprintf("CHECK (%s != 123456)", Quote(c.name)))
		}
		if fancy > 0 && len(others) > 0 && s.Chance(fancy, 60, "refs") {
			if exotic {
				cons = append(cons, "REFERENCES "+Quote(others[s.Draw(len(others), "reft")])+" ON DELETE CASCADE")
			} else {
				cons = append(cons, "REFERENCES "+Quote(others[s.Draw(len(others), "reft")])+"(x) ON DELETE CASCADE ON UPDATE SET NULL")
			}
		}
		if exotic && len(cons) > 0 && s.Chance(1, 3, "constrname") {
			k := s.Draw(len(cons), "cnamepos")
			cons[k] = "CONSTRAINT cn" + fmt.Sprint(i) + " " + cons[k]
		}
		// any textual order
		for k := len(cons) - 1; k > 0; k-- {
			j := s.Draw(k+1, "shuffle")
			cons[k], cons[j] = cons[j], cons[k]
		}
		if len(cons) > 0 {
			d += " " + strings.Join(cons, " ")
		}
		defs = append(defs, d)
	}
	indexedCols := func(max int) string {
		n := 1 + s.Draw(max, "nic")
		if n > len(cols) {
			n = len(cols)
		}
		var parts []string
		seen := map[int]bool{}
		for len(parts) < n {
			k := s.Draw(len(cols), "ic")
			dup := false
			if seen[k] {
				// the same column twice: SQLite keeps both when their collations differ
				// (PRIMARY KEY (k COLLATE NOCASE, k) stores k twice in a WITHOUT ROWID table)
				if fancy < 3 || !s.Chance(1, 5, "dupcol") {
					continue
				}
				dup = true
			}
			seen[k] = true
			p := IdentRef(s, cols[k].name, fancy)
			if dup && s.Chance(3, 4, "dupcoll") {
				p += " COLLATE " + drawCollation(s)
			} else if s.Chance(1, 4, "iccoll") {
				p += " COLLATE " + drawCollation(s)
			}
			switch s.Weighted([]int{5, 1, 3}, "icdir") {
			case 1:
				p += " ASC"
			case 2:
				p += " DESC"
			}
			parts = append(parts, p)
		}
		return strings.Join(parts, ", ")
	}
	var tcons []string
	if pkPlan == 2 {
		if s.Chance(1, 3, "tpk1") {
			// single column table-level PK (may alias the rowid)
			p := IdentRef(s, cols[pkCol].name, fancy)
			if s.Chance(1, 3, "tpkdesc") {
				p += " DESC"
			}
			tcons = append(tcons, "PRIMARY KEY ("+p+")")
		} else if fancy > 0 && s.Chance(1, 6, "pk-repeats-column") {
			// the same column twice under different collations, any position: SQLite keeps
			// both key columns (and stores the column twice in a WITHOUT ROWID table)
			k := s.Draw(len(cols), "repcol")
			c1 := drawCollation(s)
			parts := []string{IdentRef(s, cols[k].name, fancy) + " COLLATE " + c1}
			second := IdentRef(s, cols[k].name, fancy)
			if s.Chance(1, 2, "repcoll2") {
				second += " COLLATE " + drawCollation(s)
			}
			if s.Chance(1, 3, "repdesc") {
				second += " DESC"
			}
			if len(cols) > 1 && s.Chance(1, 2, "repmid") {
				o := (k + 1 + s.Draw(len(cols)-1, "repother")) % len(cols)
				parts = append(parts, IdentRef(s, cols[o].name, fancy))
			}
			parts = append(parts, second)
			tcons = append(tcons, "PRIMARY KEY ("+strings.Join(parts, ", ")+")")
		} else {
			tcons = append(tcons, "PRIMARY KEY ("+indexedCols(3)+")")
		}
	}
	nuniq := s.Weighted([]int{6, 3, 1, 1}, "nuniq")
	for i := 0; i < nuniq; i++ {
		u := "UNIQUE (" + indexedCols(3) + ")"
		if fancy > 0 && s.Chance(1, 6, "uconfl") {
			if exotic {
				u += " ON CONFLICT " + []string{"ROLLBACK", "ABORT", "FAIL", "IGNORE", "REPLACE"}[s.Draw(5, "confl")]
			} else {
				u += " ON CONFLICT REPLACE"
			}
		}
		tcons = append(tcons, u)
	}
	if fancy > 0 && len(others) > 0 && s.Chance(fancy, 50, "tfk") {
		tcons = append(tcons, "FOREIGN KEY ("+Ident(s, cols[0].name, fancy)+") REFERENCES "+Quote(others[0])+"(x) DEFERRABLE INITIALLY DEFERRED")
	}
	if exotic && s.Chance(1, 3, "tcheck") {
		tcons = append(tcons, "CHECK (1)")
	}
	for k := len(tcons) - 1; k > 0; k-- {
		j := s.Draw(k+1, "shuffle")
		tcons[k], tcons[j] = tcons[j], tcons[k]
	}
	for k := range tcons {
		if fancy > 0 && s.Chance(fancy, 40, "tcname") {
			tcons[k] = "CONSTRAINT tc" + fmt.Sprint(k) + " " + tcons[k]
		}
	}
	body := strings.Join(append(defs, tcons...), ", ")
	kw := "CREATE TABLE "
	if fancy > 0 && s.Chance(1, 10, "lowerkw") {
		kw = "create table "
	}
	sql := kw + Ident(s, name, fancy) + " (" + body + ")"
	if fancy > 0 && s.Chance(1, 10, "nl") {
		sql = kw + Ident(s, name, fancy) + "\n(\n  " + strings.Join(append(defs, tcons...), ",\n  ") + "\n)"
	}
	if wantWithoutRowid {
		sql += " WITHOUT ROWID"
	}
	return sql, colNames
}

// IndexSpec is what the generator knows about an index it created (hints for the oracle).
type IndexSpec struct {
	Name  string
	SQL   string
	Where string
	Exprs map[string]string // seqno -> expression text
}

// CreateIndex produces CREATE INDEX text on the given columns.
func CreateIndex(s *sim.Src, name, table string, cols []string, fancy int, allowExpr bool) IndexSpec {
	n := 1 + s.Weighted([]int{5, 3, 1}, "nixcols")
	if n > len(cols) {
		n = len(cols)
	}
	spec := IndexSpec{Name: name, Exprs: map[string]string{}}
	var parts []string
	seen := map[int]bool{}
	for len(parts) < n {
		k := s.Draw(len(cols), "ixcol")
		if seen[k] {
			continue
		}
		seen[k] = true
		var p string
		if allowExpr && s.Chance(1, 8, "expr") {
			q := Quote(cols[k])
			var e string
			switch s.Draw(4, "exprkind") {
			case 0:
				e = q + "+1"
			case 1:
				e = "lower(" + q + ")"
			case 2:
				e = q + " || 'x'"
			default:
				e = "length(" + q + ")"
			}
			if fancy >= 9 && s.Chance(1, 3, "expr-parens") {
				// (only the schema check builds these: known finding C10:schema:paren-expr-collate)
				// (expr) COLLATE c: the collation belongs to the whole indexed value
				e = "(" + e + ")"
			}
			spec.Exprs[fmt.Sprint(len(parts))] = e
			p = e
		} else if allowExpr && fancy >= 5 && s.Chance(1, 15, "quoted-rowid") {
			// "rowid" in double quotes where the table has no such column: SQLite cannot
			// index the rowid and falls back to the string literal
			rn := []string{"rowid", "oid", "_rowid_", "ROWID"}[s.Draw(4, "rowidname")]
			known := false
			for _, cn := range cols {
				if fold.Equal(cn, rn) {
					known = true
				}
			}
			p = `"` + rn + `"`
			if !known {
				spec.Exprs[fmt.Sprint(len(parts))] = "'" + rn + "'"
			}
		} else {
			p = IdentRef(s, cols[k], fancy)
			if fancy >= 5 && s.Chance(1, 12, "comment-after-column") {
				// a comment ending in a number: "a -- 1" must not read as a - -1
				p += []string{" -- 1\n", " /* 2 */", " --\n", " -- x 3\n", " /*/ 4 */", " /**/", " /* -- */", " /*/, nosuch /*/"}[s.Draw(8, "commentkind")]
			}
		}
		if s.Chance(1, 3, "ixcoll") {
			p += " COLLATE " + drawCollation(s)
		}
		switch s.Weighted([]int{5, 1, 3}, "ixdir") {
		case 1:
			p += " ASC"
		case 2:
			p += " DESC"
		}
		parts = append(parts, p)
	}
	u := ""
	if s.Chance(1, 8, "uniqueix") {
		u = "UNIQUE "
	}
	sql := "CREATE " + u + "INDEX " + Ident(s, name, fancy) + " ON " + Ident(s, table, fancy) + " (" + strings.Join(parts, ", ") + ")"
	if s.Chance(1, 7, "partial") {
		c := Quote(cols[s.Draw(len(cols), "wherecol")])
		switch s.Draw(3, "wherekind") {
		case 0:
			spec.Where = c + " IS NOT NULL"
		case 1:
			spec.Where = c + " > 5"
		default:
			spec.Where = c + " < 'm'"
		}
		sql += " WHERE " + spec.Where
	}
	spec.SQL = sql
	return spec
}

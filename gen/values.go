// Package gen generates SQLite writer workloads (DDL + DML histories) from a choice source.
package gen

import (
	"math"
	"strings"

	"verif/sim"
	"verif/sq"
)

var intGrid = []int64{
	0, 1, -1, 2, 5, 42, 100,
	127, 128, -128, -129,
	32767, 32768, -32768, -32769,
	8388607, 8388608, -8388608, -8388609,
	2147483647, 2147483648, -2147483648, -2147483649,
	140737488355327, 140737488355328, -140737488355328, -140737488355329,
	9007199254740991, 9007199254740992, 9007199254740993, -9007199254740992, -9007199254740993,
	9223372036854775807, 9223372036854775806, -9223372036854775808, -9223372036854775807,
	1 << 40, 1 << 55, 255, 256, 65535, 65536, 16777215, 16777216, 4294967295, 4294967296,
}

var realGrid = []float64{
	0.0, math.Copysign(0, -1), 1.5, -1.5, 3.0, -3.0, 0.1, 1e-5, 42.0, 42.5,
	9007199254740992.0, 9007199254740994.0, -9007199254740992.0,
	9223372036854775808.0, -9223372036854775808.0, 1e19, -1e19, 1e300, -1e300,
	math.Inf(1), math.Inf(-1), math.SmallestNonzeroFloat64, 2.2250738585072014e-308,
	127.0, 128.0, 32768.0, 2147483648.0, 127.5, 1e15, 123456789.125,
}

var textGrid = []string{
	"", "a", "A", "abc", "ABC", "Abc", "abc ", "abc  ", "abc\t", "abc\n", "ABC ", "ab", "abd", "abcd", "b", "B",
	" abc", "é", "É", "éa", "ea", "z", "Z", "[", "@", "`", "{", "a\x00b", "a\x00", "\x00", "a\x00z", "A\x00c", "a\x00bb", "\x00\x00",
	"12", "12abc", "1e3", " 12", "-7", "3.5", "010", "-0755", "007", "00", "0x10", "12 ", "+5", "9223372036854775808", "1.0", ".5", "5.",
	"2006-01-02 15:04:05", "2006-01-02 15:04:05.123", "2006-01-02", "not a time",
	"2020-01-02 03:04:05.6", "2020-01-02 03:04:05.678901", "2020-01-02 03:04:05.123456789", "2020-01-02T03:04:05Z", "2020-01-02 03:04", "2020-13-02 03:04:05", "2020-01-02 03:04:05 ",
	"naïve", "日本", "日本語", "\xff\xfe", "a\xffb", "true", "inf", "nan", "1_000",
	"word", "Word", "WORD", "word ", "wor", "words",
}

var blobGrid = [][]byte{
	{}, {0}, {0, 0}, {1}, {0x61}, []byte("abc"), []byte("ab"), []byte("abd"), {0xff}, {0xff, 0xff}, {0x80}, []byte("12"), []byte("ABC"),
}

// Value draws one storable value from the grid. class weights: null, int, real, text, blob.
func Value(s *sim.Src, w [5]int) sq.Val {
	switch s.Weighted(w[:], "vclass") {
	case 0:
		return nil
	case 1:
		if s.Chance(1, 4, "smallint") {
			return int64(s.Draw(20, "int") - 3)
		}
		v := intGrid[s.Draw(len(intGrid), "int")]
		if s.Chance(1, 6, "int+-") {
			d := int64(s.Draw(3, "d") - 1)
			if (d > 0 && v < math.MaxInt64) || (d < 0 && v > math.MinInt64) {
				v += d
			}
		}
		return v
	case 2:
		return realGrid[s.Draw(len(realGrid), "real")]
	case 3:
		return textGrid[s.Draw(len(textGrid), "text")]
	default:
		return append([]byte{}, blobGrid[s.Draw(len(blobGrid), "blob")]...)
	}
}

var DefaultMix = [5]int{2, 6, 3, 7, 2}

// Payload makes a text or blob of exactly n bytes, content derived from tag so
// that different rows differ and truncation/misplacement is visible.
func Payload(n int, tag int, blob bool) sq.Val {
	b := make([]byte, n)
	x := uint32(tag)*2654435761 + 12345
	for i := range b {
		x = x*1664525 + 1013904223
		if blob {
			b[i] = byte(x >> 24)
		} else {
			b[i] = 'a' + byte((x>>24)%26)
		}
	}
	if blob {
		return b
	}
	return string(b)
}

// Thresholds gives interesting payload sizes for page size u (table and index cells).
func Thresholds(u int) []int {
	xt := u - 35
	xi := ((u-12)*64)/255 - 23
	m := ((u-12)*32)/255 - 23
	var out []int
	add := func(p int) {
		if p >= 0 {
			out = append(out, p)
		}
	}
	for _, x := range []int{xt, xi, m} {
		add(x - 1)
		add(x)
		add(x + 1)
	}
	// K flips: P = M + n(U-4) + (X-M) (+1)
	for n := 0; n < 4; n++ {
		for _, x := range []int{xt, xi} {
			add(m + n*(u-4) + (x - m))
			add(m + n*(u-4) + (x - m) + 1)
		}
		add(n*(u-4) + xt) // chain lengths: exactly n overflow pages full
		add(n * (u - 4))
	}
	return out
}

func IsNumericLooking(s string) bool {
	s = strings.TrimSpace(s)
	if s == "" {
		return false
	}
	c := s[0]
	return c >= '0' && c <= '9' || c == '-' || c == '+' || c == '.'
}

func IntGrid() []int64    { return intGrid }
func RealGrid() []float64 { return realGrid }
func TextGrid() []string  { return textGrid }
func BlobGrid() [][]byte  { return blobGrid }

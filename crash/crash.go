// Package crash records the system calls of a real SQLite write transaction
// (strace) and replays any prefix of them — optionally with a torn last write —
// onto in-memory copies of the database and its rollback journal: the files a
// writer leaves behind when it dies at that point.
package crash

import (
	"bufio"
	"bytes"
	"encoding/json"
	"fmt"
	"os"
	"os/exec"
	"path/filepath"
	"regexp"
	"strconv"
	"strings"
)

type Op struct {
	Kind string `json:"kind"` // open pwrite write ftruncate fsync unlink close lock
	File string `json:"file"` // "db" or "journal"
	Off  int64  `json:"off,omitempty"`
	Len  int64  `json:"len,omitempty"`
	Data []byte `json:"data,omitempty"`
	Arg  string `json:"arg,omitempty"` // open flags / lock description
	Fd   int    `json:"fd,omitempty"`
}

func (o Op) String() string {
	switch o.Kind {
	case "pwrite", "write":
		return fmt.Sprintf("%s(%s, %d bytes @%d)", o.Kind, o.File, len(o.Data), o.Off)
	case "ftruncate":
		return fmt.Sprintf("ftruncate(%s, %d)", o.File, o.Len)
	case "open":
		return fmt.Sprintf("open(%s, %s)", o.File, o.Arg)
	case "lock":
		return fmt.Sprintf("fcntl(%s, %s)", o.File, o.Arg)
	}
	return fmt.Sprintf("%s(%s)", o.Kind, o.File)
}

type Scenario struct {
	Pragmas []string   `json:"pragmas"`
	Txns    [][]string `json:"txns"`
}

type Trace struct {
	Ops      []Op   `json:"ops"`
	BaseDB   []byte `json:"base_db"`
	BaseJrnl []byte `json:"base_journal"` // nil = absent
	HasJrnl  bool   `json:"has_journal"`
	SQLErrs  int    `json:"sql_errors"`
}

var lineRe = regexp.MustCompile(`^(\d+\s+)?(\w+)\((.*)\)\s+=\s+(-?\d+)`)

func unhex(s string) []byte {
	// strace -xx string: every byte as \xNN
	out := make([]byte, 0, len(s)/4)
	for i := 0; i < len(s); {
		if s[i] == '\\' && i+3 < len(s) && s[i+1] == 'x' {
			v, err := strconv.ParseUint(s[i+2:i+4], 16, 8)
			if err == nil {
				out = append(out, byte(v))
				i += 4
				continue
			}
		}
		out = append(out, s[i])
		i++
	}
	return out
}

// firstString extracts the first quoted string of an argument list.
func firstString(args string) (string, string) {
	i := strings.IndexByte(args, '"')
	if i < 0 {
		return "", args
	}
	j := strings.IndexByte(args[i+1:], '"')
	if j < 0 {
		return "", args
	}
	return args[i+1 : i+1+j], args[i+1+j+1:]
}

// Record runs the scenario's transactions with real SQLite under strace and
// parses the system calls that touch the database or its journal.
func Record(pyScript string, dbPath string, sc Scenario, workDir string) (*Trace, error) {
	base, err := os.ReadFile(dbPath)
	if err != nil {
		return nil, err
	}
	tr := &Trace{BaseDB: base}
	if jb, err := os.ReadFile(dbPath + "-journal"); err == nil {
		tr.BaseJrnl, tr.HasJrnl = jb, true
	}
	scj, _ := json.Marshal(sc)
	scPath := filepath.Join(workDir, "scenario.json")
	if err := os.WriteFile(scPath, scj, 0o644); err != nil {
		return nil, err
	}
	out := filepath.Join(workDir, "strace.out")
	cmd := exec.Command("strace", "-f", "-xx", "-s", "200000", "-e", "trace=openat,open,pwrite64,write,ftruncate,fsync,fdatasync,unlink,unlinkat,fcntl,close", "-o", out,
		"/usr/bin/python3", "-S", "-E", pyScript, dbPath, scPath)
	var stderr bytes.Buffer
	cmd.Stderr = &stderr
	if err := cmd.Run(); err != nil {
		return nil, fmt.Errorf("strace/recorder: %v: %s", err, stderr.String())
	}
	if !strings.Contains(stderr.String(), "RECORDER-END") {
		return nil, fmt.Errorf("recorder did not finish: %s", stderr.String())
	}
	tr.SQLErrs = strings.Count(stderr.String(), "RECORDER-SQLERR")
	f, err := os.Open(out)
	if err != nil {
		return nil, err
	}
	defer f.Close()
	fds := map[int]string{}
	pos := map[int]int64{}
	name := func(p string) string {
		switch p {
		case dbPath:
			return "db"
		case dbPath + "-journal":
			return "journal"
		}
		return ""
	}
	started := false
	sc2 := bufio.NewScanner(f)
	sc2.Buffer(make([]byte, 1<<20), 1<<28)
	for sc2.Scan() {
		line := sc2.Text()
		if strings.Contains(line, "RECORDER-START") || strings.Contains(line, `\x52\x45\x43\x4f\x52\x44\x45\x52\x2d\x53\x54\x41\x52\x54`) {
			started = true
			continue
		}
		m := lineRe.FindStringSubmatch(line)
		if m == nil {
			continue
		}
		call, args, ret := m[2], m[3], m[4]
		rv, _ := strconv.Atoi(ret)
		switch call {
		case "openat", "open":
			ps, rest := firstString(args)
			p := string(unhex(ps))
			if n := name(p); n != "" && rv >= 0 {
				fds[rv] = n
				pos[rv] = 0
				flags := strings.TrimSpace(strings.TrimPrefix(rest, ","))
				if started {
					tr.Ops = append(tr.Ops, Op{Kind: "open", File: n, Arg: flags, Fd: rv})
				}
			}
		case "close":
			fd, _ := strconv.Atoi(strings.TrimSpace(args))
			if n, ok := fds[fd]; ok {
				if started {
					tr.Ops = append(tr.Ops, Op{Kind: "close", File: n, Fd: fd})
				}
				delete(fds, fd)
			}
		case "pwrite64", "write":
			parts := strings.SplitN(args, ",", 2)
			fd, _ := strconv.Atoi(strings.TrimSpace(parts[0]))
			n, ok := fds[fd]
			if !ok || rv < 0 {
				continue
			}
			ds, rest := firstString(parts[1])
			data := unhex(ds)
			if len(data) > rv {
				data = data[:rv]
			}
			off := pos[fd]
			if call == "pwrite64" {
				fs := strings.Split(rest, ",")
				off, _ = strconv.ParseInt(strings.TrimSpace(fs[len(fs)-1]), 10, 64)
			} else {
				pos[fd] += int64(rv)
			}
			if len(data) != rv {
				return nil, fmt.Errorf("strace truncated a write of %d bytes to %d", rv, len(data))
			}
			if started {
				tr.Ops = append(tr.Ops, Op{Kind: "pwrite", File: n, Off: off, Data: data, Fd: fd})
			}
		case "ftruncate":
			parts := strings.Split(args, ",")
			fd, _ := strconv.Atoi(strings.TrimSpace(parts[0]))
			if n, ok := fds[fd]; ok && rv == 0 && started {
				l, _ := strconv.ParseInt(strings.TrimSpace(parts[1]), 10, 64)
				tr.Ops = append(tr.Ops, Op{Kind: "ftruncate", File: n, Len: l, Fd: fd})
			}
		case "fsync", "fdatasync":
			fd, _ := strconv.Atoi(strings.TrimSpace(args))
			if n, ok := fds[fd]; ok && started {
				tr.Ops = append(tr.Ops, Op{Kind: "fsync", File: n, Fd: fd})
			}
		case "unlink", "unlinkat":
			ps, _ := firstString(args)
			if n := name(string(unhex(ps))); n != "" && rv == 0 && started {
				tr.Ops = append(tr.Ops, Op{Kind: "unlink", File: n})
			}
		case "fcntl":
			parts := strings.SplitN(args, ",", 3)
			fd, _ := strconv.Atoi(strings.TrimSpace(parts[0]))
			if n, ok := fds[fd]; ok && len(parts) == 3 && strings.Contains(parts[1], "F_SETLK") && rv == 0 && started {
				tr.Ops = append(tr.Ops, Op{Kind: "lock", File: n, Arg: strings.TrimSpace(parts[2]), Fd: fd})
			}
		}
	}
	return tr, nil
}

// Files is the state of the two files.
type Files struct {
	DB      []byte
	Journal []byte
	HasJ    bool
}

func apply(f *Files, o Op, cut int) {
	buf := &f.DB
	if o.File == "journal" {
		buf = &f.Journal
	}
	switch o.Kind {
	case "open":
		if o.File == "journal" && strings.Contains(o.Arg, "O_CREAT") && !f.HasJ {
			f.HasJ = true
			f.Journal = nil
		}
	case "pwrite":
		data := o.Data
		if cut >= 0 && cut < len(data) {
			data = data[:cut]
		}
		if o.File == "journal" {
			f.HasJ = true
		}
		end := int(o.Off) + len(data)
		if end > len(*buf) {
			nb := make([]byte, end)
			copy(nb, *buf)
			*buf = nb
		} else {
			nb := append([]byte(nil), *buf...)
			*buf = nb
		}
		copy((*buf)[o.Off:], data)
	case "ftruncate":
		if int(o.Len) <= len(*buf) {
			*buf = append([]byte(nil), (*buf)[:o.Len]...)
		} else {
			nb := make([]byte, o.Len)
			copy(nb, *buf)
			*buf = nb
		}
	case "unlink":
		if o.File == "journal" {
			f.HasJ = false
			f.Journal = nil
		}
	}
}

// Image gives the files left behind when the writer dies after k complete
// operations; if cut >= 0, operation k itself (a write) is applied as a prefix
// of cut bytes (torn write).
func (t *Trace) Image(k int, cut int) Files {
	f := Files{DB: t.BaseDB, Journal: t.BaseJrnl, HasJ: t.HasJrnl}
	for i := 0; i < k && i < len(t.Ops); i++ {
		apply(&f, t.Ops[i], -1)
	}
	if cut >= 0 && k < len(t.Ops) && t.Ops[k].Kind == "pwrite" {
		apply(&f, t.Ops[k], cut)
	}
	return f
}

// States computes all prefix images incrementally (cheap): calls fn(k, files) for k=0..n.
func (t *Trace) Walk(fn func(k int, f Files)) {
	f := Files{DB: t.BaseDB, Journal: t.BaseJrnl, HasJ: t.HasJrnl}
	fn(0, f)
	for i := range t.Ops {
		apply(&f, t.Ops[i], -1)
		fn(i+1, f)
	}
}

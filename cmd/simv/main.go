// simv: deterministic simulation harness for alicebob/sqlittle.
package main

import (
	"fmt"
	"os"
	"path/filepath"
	"strconv"
	"strings"

	_ "verif/props"
	"verif/sim"
)

func usage() {
	fmt.Fprintln(os.Stderr, "usage: simv run <property> <quick|thorough> | replay <file> | worker ... | list")
	os.Exit(2)
}

func main() { os.Exit(realMain(os.Args)) }

// realMain is also the body of the test binary (see main_test.go): the harness
// is built with `go test -c` so that runs can enter testing/synctest bubbles.
func realMain(argv []string) int {
	os.Args = argv
	if len(os.Args) < 2 {
		usage()
	}
	self, _ := os.Executable()
	verifDir := os.Getenv("VERIF_DIR")
	if verifDir == "" {
		verifDir = "/verif"
	}
	sim.LoadKnownSigs(verifDir)
	switch os.Args[1] {
	case "list":
		for id := range sim.Registry {
			fmt.Println(id)
		}
	case "run":
		if len(os.Args) < 4 {
			usage()
		}
		p := sim.Registry[os.Args[2]]
		if p == nil {
			fmt.Fprintf(os.Stderr, "unknown property %s\n", os.Args[2])
			return 2
		}
		return sim.BatchMain(self, verifDir, p, os.Args[3])
	case "replay":
		if len(os.Args) < 3 {
			usage()
		}
		path := os.Args[2]
		if !filepath.IsAbs(path) {
			path, _ = filepath.Abs(path)
		}
		return sim.ReplayMain(path)
	case "shrink":
		secs, _ := strconv.Atoi(os.Args[3])
		return sim.ShrinkMain(os.Args[2], secs)
	case "dettest":
		p := sim.Registry[os.Args[2]]
		n, _ := strconv.Atoi(os.Args[4])
		return sim.DetTest(self, p, os.Args[3], n)
	case "one":
		// one <prop> <tier> <seed> <idx>: execute a single run and print its event log
		p := sim.Registry[os.Args[2]]
		seed, _ := strconv.ParseUint(os.Args[4], 10, 64)
		idx, _ := strconv.Atoi(os.Args[5])
		env, closer, err := p.NewEnv(os.Args[3])
		if err != nil {
			fmt.Fprintln(os.Stderr, err)
			return 2
		}
		res, c := sim.Execute(p.ID, os.Args[3], idx, sim.NewSrc(sim.Mix(seed, p.ID, idx)), env, nil, p.Fn, 100000)
		closer()
		for _, l := range c.Log.Lines {
			fmt.Println(l)
		}
		if res.Viol != nil {
			fmt.Printf("VIOLSIG %s\nVIOLMSG %s\n", res.Viol.Sig, res.Viol.Msg)
		}
		fmt.Printf("hash=%s steps=%d viol=%v trouble=%q stats=%v\n", res.Hash, res.Steps, res.Viol, res.Trouble, res.Stats)
	case "worker":
		// worker <prop> <tier> <seed> <shard> <nshards> [list]
		if len(os.Args) < 7 {
			usage()
		}
		p := sim.Registry[os.Args[2]]
		seed, _ := strconv.ParseUint(os.Args[4], 10, 64)
		shard, _ := strconv.Atoi(os.Args[5])
		nshards, _ := strconv.Atoi(os.Args[6])
		var only []int
		if len(os.Args) > 7 {
			for _, s := range strings.Split(os.Args[7], ",") {
				n, _ := strconv.Atoi(s)
				only = append(only, n)
			}
		}
		return sim.WorkerMain(p, os.Args[3], seed, shard, nshards, only)
	default:
		if fn, ok := sim.Extra[os.Args[1]]; ok {
			return fn(os.Args[2:])
		}
		usage()
	}
	return 0
}

package main

import (
	"flag"
	"os"
	"testing"

	"verif/sim"
)

// The harness binary is a test binary (go test -c): TestHost runs the real
// command with a *testing.T available for testing/synctest bubbles.
func TestMain(m *testing.M) {
	os.Exit(m.Run())
}

func TestHost(t *testing.T) {
	sim.T = t
	args := append([]string{os.Args[0]}, flag.Args()...)
	os.Exit(realMain(args))
}

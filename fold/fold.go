// Package fold is SQLite's identifier case folding: ASCII letters only
// (sqlite3UpperToLower); every other byte is left alone.
package fold

func Lower(s string) string {
	for i := 0; i < len(s); i++ {
		if s[i] >= 'A' && s[i] <= 'Z' {
			b := []byte(s)
			for j := i; j < len(b); j++ {
				if b[j] >= 'A' && b[j] <= 'Z' {
					b[j] += 'a' - 'A'
				}
			}
			return string(b)
		}
	}
	return s
}

func Upper(s string) string {
	for i := 0; i < len(s); i++ {
		if s[i] >= 'a' && s[i] <= 'z' {
			b := []byte(s)
			for j := i; j < len(b); j++ {
				if b[j] >= 'a' && b[j] <= 'z' {
					b[j] -= 'a' - 'A'
				}
			}
			return string(b)
		}
	}
	return s
}

func Equal(a, b string) bool { return len(a) == len(b) && Lower(a) == Lower(b) }

// IsASCII reports whether s has no byte >= 0x80.
func IsASCII(s string) bool {
	for i := 0; i < len(s); i++ {
		if s[i] >= 0x80 {
			return false
		}
	}
	return true
}

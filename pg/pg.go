// Package pg holds the pagers the simulator puts under sqlittle's pager seam:
// an in-memory simulated disk with fault injection and budgets (E-PAGE) and a
// tracing wrapper around the real file pager (E-WORLD).
package pg

import (
	"errors"
	"fmt"
	"io"
	"sync"

	sdb "github.com/alicebob/sqlittle/db"
)

var ErrInjected = errors.New("injected I/O error")
var ErrBudget = errors.New("read budget exceeded")
var ErrLockInjected = errors.New("injected lock failure")

// Mem is a simulated disk: a byte image served with the file pager's copy
// semantics (fresh buffer per call; reads past the end are short + io.EOF).
type Mem struct {
	Image []byte
	// counters (per operation; reset with ResetOp)
	Reads     int
	Bytes     int64
	MaxReads  int // 0 = unlimited
	MaxBytes  int64
	BudgetHit bool
	// faults
	FailAt     int  // k-th read of the operation fails (1-based); 0 = none
	FailKind   int  // 0 = error, 1 = short read (partial buffer + EOF), 2 = the page arrives with an invalid b-tree page type (only for pages in BtreePages)
	BtreePages map[int]bool
	FailSticky bool // all reads from the k-th on fail
	Fired      bool
	LockFail   bool
	ReservedErr bool
	Reserved   bool
	// mutate-at-read: apply Mutate to the image when the k-th read starts
	MutateAt int
	Mutate   func(img []byte) []byte
	Mutated  bool
	// misdirect: page i is served with the bytes of page j
	Misdirect map[int]int
	// trace
	Locked   bool
	Locks    int
	Unlocks  int
	Closed   bool
	OnPage   func(n int)
	PageLog  []int
	KeepLog  bool
	ReadOutsideLock int
}

var _ sdb.VerifPager = (*Mem)(nil)

func (m *Mem) ResetOp() {
	m.Reads = 0
	m.Bytes = 0
	m.BudgetHit = false
	m.Fired = false
	m.PageLog = m.PageLog[:0]
}

func (m *Mem) Page(n int, pagesize int) ([]byte, error) {
	m.Reads++
	if m.KeepLog {
		m.PageLog = append(m.PageLog, n)
	}
	if m.OnPage != nil {
		m.OnPage(n)
	}
	if !m.Locked {
		m.ReadOutsideLock++
	}
	if (m.MaxReads > 0 && m.Reads > m.MaxReads) || (m.MaxBytes > 0 && m.Bytes > m.MaxBytes) {
		m.BudgetHit = true
		return nil, ErrBudget
	}
	if m.Mutate != nil && !m.Mutated && m.Reads >= m.MutateAt {
		m.Image = m.Mutate(m.Image)
		m.Mutated = true
	}
	buf := make([]byte, pagesize)
	src := n
	if j, ok := m.Misdirect[n]; ok {
		src = j
	}
	off := int64(src-1) * int64(pagesize)
	if off < 0 || off > int64(len(m.Image)) {
		return buf, fmt.Errorf("mmap: invalid ReadAt offset %d", off)
	}
	c := copy(buf, m.Image[off:])
	m.Bytes += int64(c)
	if m.FailAt > 0 && (m.Reads == m.FailAt || (m.FailSticky && m.Reads > m.FailAt)) {
		if m.FailKind == 2 {
			// detectable corruption: a b-tree page (not page 1, whose first read is
			// for the header only) whose type byte is none of 2, 5, 10, 13
			if n > 1 && m.BtreePages[n] && c == pagesize {
				m.Fired = true
				buf[0] = 0xee
			}
			return buf, nil
		}
		m.Fired = true
		if m.FailKind == 0 {
			return nil, ErrInjected
		}
		// short read: what mmap.ReaderAt does when the file ends inside the page
		keep := c / 2
		for i := keep; i < len(buf); i++ {
			buf[i] = 0
		}
		return buf, io.EOF
	}
	if c < pagesize {
		return buf, io.EOF
	}
	return buf, nil
}

func (m *Mem) Close() error { m.Closed = true; return nil }

func (m *Mem) RLock() error {
	if m.LockFail {
		return ErrLockInjected
	}
	if m.Locked {
		return errors.New("trying to lock a locked lock")
	}
	m.Locked = true
	m.Locks++
	return nil
}

func (m *Mem) RUnlock() error {
	if !m.Locked {
		return errors.New("trying to unlock an unlocked lock")
	}
	m.Locked = false
	m.Unlocks++
	return nil
}

func (m *Mem) CheckReservedLock() (bool, error) {
	if m.ReservedErr {
		return false, ErrInjected
	}
	return m.Reserved, nil
}

// Trace wraps a pager (normally the real file pager) and reports every event.
// It only observes (and lets the observer park): behaviour is unchanged.
type Trace struct {
	P      sdb.VerifPager
	Name   string
	Event  func(kind string, n int, err error) // kinds: lock-ok lock-fail unlock page close reserved
	FailAt int                                 // optional: k-th page read returns an error (after the real read)
	FailErr error                              // the error of that read (default ErrInjected); io.EOF = what the file pager returns for a page beyond the end of a truncated file
	Reads  int
	Fired  bool
	mu     sync.Mutex // Reads/FailAt/Fired may be touched from the producer goroutine and the scheduler
}

func (t *Trace) SetFailAt(k int)  { t.mu.Lock(); t.FailAt = k; t.mu.Unlock() }
func (t *Trace) ArmFailAfter(k int) { t.mu.Lock(); t.FailAt = t.Reads + k; t.mu.Unlock() }
func (t *Trace) HasFired() bool   { t.mu.Lock(); defer t.mu.Unlock(); return t.Fired }
func (t *Trace) ReadCount() int   { t.mu.Lock(); defer t.mu.Unlock(); return t.Reads }
func (t *Trace) FailPos() int     { t.mu.Lock(); defer t.mu.Unlock(); return t.FailAt }

var _ sdb.VerifPager = (*Trace)(nil)

func (t *Trace) Page(n int, pagesize int) ([]byte, error) {
	b, err := t.P.Page(n, pagesize)
	t.mu.Lock()
	t.Reads++
	if t.FailAt > 0 && t.Reads == t.FailAt {
		err = ErrInjected
		if t.FailErr != nil {
			err = t.FailErr
		}
		b = nil
		t.Fired = true
	}
	t.mu.Unlock()
	if t.Event != nil {
		t.Event("page", n, err)
	}
	return b, err
}

func (t *Trace) Close() error {
	err := t.P.Close()
	if t.Event != nil {
		t.Event("close", 0, err)
	}
	return err
}

func (t *Trace) RLock() error {
	err := t.P.RLock()
	if t.Event != nil {
		if err != nil {
			t.Event("lock-fail", 0, err)
		} else {
			t.Event("lock-ok", 0, nil)
		}
	}
	return err
}

func (t *Trace) RUnlock() error {
	err := t.P.RUnlock()
	if t.Event != nil {
		t.Event("unlock", 0, err)
	}
	return err
}

func (t *Trace) CheckReservedLock() (bool, error) {
	// a yield point BEFORE the probe: the journal has been inspected already (outside the
	// pager), the reserved byte not yet - a writer can finish in between
	if t.Event != nil {
		t.Event("reserved-probe", 0, nil)
	}
	b, err := t.P.CheckReservedLock()
	if t.Event != nil {
		t.Event("reserved", 0, err)
	}
	return b, err
}

// Package pagewalk is a small independent reader of SQLite b-tree pages. It is
// used only to AIM (where to corrupt, which rowids sit on page boundaries) and
// to count reach probes — never as an oracle.
package pagewalk

import "encoding/binary"

type Cell struct {
	Off        int   // offset of the cell in the page
	LeftOff    int   // offset of the 4-byte left child pointer (-1 if none)
	Left       int   // child page
	LenOff     int   // offset of the payload length varint (-1 if none)
	PayloadLen int64 // declared payload length
	RowidOff   int   // offset of rowid varint (-1 if none)
	Rowid      int64
	PayloadOff int // offset of the in-page payload
	Local      int // bytes of payload stored in-page
	OvflOff    int // offset of the overflow page pointer (-1 if none)
	Ovfl       int
	HdrLenOff  int   // record header length varint offset (== PayloadOff) or -1
	SerialOffs []int // offsets of the serial type varints that are in-page
	HdrEnd     int   // offset just after the record header (in-page part)
}

type Page struct {
	No        int
	HdrOff    int // 100 for page 1, else 0
	Type      byte
	NCells    int
	PtrArrOff int
	RightOff  int // offset of right-most pointer or -1
	Right     int
	Cells     []Cell
	Valid     bool
}

func Varint(b []byte) (int64, int) {
	var n uint64
	for i := 0; i < 9; i++ {
		if i >= len(b) {
			return 0, -1
		}
		c := b[i]
		if i == 8 {
			return int64(n<<8 | uint64(c)), 9
		}
		n = n<<7 | uint64(c&0x7f)
		if c < 0x80 {
			return int64(n), i + 1
		}
	}
	return 0, -1
}

func localSize(p int64, u int, table bool) int {
	x := int64(u - 35)
	if !table {
		x = int64((u-12)*64/255 - 23)
	}
	m := int64((u-12)*32/255 - 23)
	if p <= x {
		return int(p)
	}
	k := m + (p-m)%int64(u-4)
	if k <= x {
		return int(k)
	}
	return int(m)
}

// Parse reads page no (1-based) of img with page size u. Lenient: stops at the
// first thing that does not fit.
func Parse(img []byte, u int, no int) *Page {
	p := &Page{No: no, RightOff: -1}
	start := (no - 1) * u
	if no < 1 || start+u > len(img) {
		return p
	}
	b := img[start : start+u]
	if no == 1 {
		p.HdrOff = 100
	}
	h := b[p.HdrOff:]
	if len(h) < 12 {
		return p
	}
	p.Type = h[0]
	p.NCells = int(binary.BigEndian.Uint16(h[3:5]))
	switch p.Type {
	case 0x0d, 0x0a:
		p.PtrArrOff = p.HdrOff + 8
	case 0x05, 0x02:
		p.PtrArrOff = p.HdrOff + 12
		p.RightOff = p.HdrOff + 8
		p.Right = int(binary.BigEndian.Uint32(h[8:12]))
	default:
		return p
	}
	p.Valid = true
	for i := 0; i < p.NCells; i++ {
		po := p.PtrArrOff + 2*i
		if po+2 > u {
			break
		}
		off := int(binary.BigEndian.Uint16(b[po : po+2]))
		if off >= u {
			continue
		}
		c := Cell{Off: off, LeftOff: -1, LenOff: -1, RowidOff: -1, OvflOff: -1, HdrLenOff: -1}
		q := off
		if p.Type == 0x05 || p.Type == 0x02 {
			if q+4 > u {
				continue
			}
			c.LeftOff = q
			c.Left = int(binary.BigEndian.Uint32(b[q : q+4]))
			q += 4
		}
		if p.Type == 0x05 {
			v, n := Varint(b[q:])
			if n > 0 {
				c.RowidOff = q
				c.Rowid = v
			}
			p.Cells = append(p.Cells, c)
			continue
		}
		v, n := Varint(b[q:])
		if n < 0 {
			continue
		}
		c.LenOff = q
		c.PayloadLen = v
		q += n
		if p.Type == 0x0d {
			r, n := Varint(b[q:])
			if n < 0 {
				continue
			}
			c.RowidOff = q
			c.Rowid = r
			q += n
		}
		c.PayloadOff = q
		if v >= 0 {
			c.Local = localSize(v, u, p.Type == 0x0d)
			if int64(c.Local) < v && q+c.Local+4 <= u {
				c.OvflOff = q + c.Local
				c.Ovfl = int(binary.BigEndian.Uint32(b[q+c.Local : q+c.Local+4]))
			}
			// record header
			if q < u {
				hl, hn := Varint(b[q:])
				if hn > 0 {
					c.HdrLenOff = q
					end := q + int(hl)
					if hl < 0 || end > q+c.Local {
						end = q + c.Local
					}
					if end > u {
						end = u
					}
					c.HdrEnd = end
					for s := q + hn; s < end; {
						_, sn := Varint(b[s:end])
						if sn < 0 {
							break
						}
						c.SerialOffs = append(c.SerialOffs, s)
						s += sn
					}
				}
			}
		}
		p.Cells = append(p.Cells, c)
	}
	return p
}

// PageSize reads the page size from the file header (0 if not plausible).
func PageSize(img []byte) int {
	if len(img) < 100 {
		return 0
	}
	u := int(binary.BigEndian.Uint16(img[16:18]))
	if u == 1 {
		u = 65536
	}
	if u < 512 || u&(u-1) != 0 {
		return 0
	}
	return u
}

// Walk parses every page of the image.
func Walk(img []byte) (u int, pages []*Page) {
	u = PageSize(img)
	if u == 0 {
		return 0, nil
	}
	n := len(img) / u
	for i := 1; i <= n; i++ {
		pages = append(pages, Parse(img, u, i))
	}
	return
}

// Tree describes the shape below a root: depth, and for table trees the
// boundary rowids (separators, first/last of every leaf).
type Tree struct {
	Depth      int
	Leaves     int
	Interior   int
	Boundaries []int64 // table trees: separator keys + first/last rowid of every leaf
	LeafLastIdx []int  // index trees etc: cumulative entry index of the last entry of every leaf / interior entries
	InteriorEntryIdx []int
	Entries    int
}

// Shape walks the tree rooted at root (bounded; ignores cycles).
func Shape(img []byte, u int, root int) *Tree {
	t := &Tree{}
	seen := map[int]bool{}
	var rec func(no, depth int)
	rec = func(no, depth int) {
		if seen[no] || depth > 40 {
			return
		}
		seen[no] = true
		p := Parse(img, u, no)
		if !p.Valid {
			return
		}
		if depth > t.Depth {
			t.Depth = depth
		}
		switch p.Type {
		case 0x0d:
			t.Leaves++
			if len(p.Cells) > 0 {
				t.Boundaries = append(t.Boundaries, p.Cells[0].Rowid, p.Cells[len(p.Cells)-1].Rowid)
			}
			t.Entries += len(p.Cells)
			t.LeafLastIdx = append(t.LeafLastIdx, t.Entries)
		case 0x0a:
			t.Leaves++
			t.Entries += len(p.Cells)
			t.LeafLastIdx = append(t.LeafLastIdx, t.Entries)
		case 0x05:
			t.Interior++
			for _, c := range p.Cells {
				rec(c.Left, depth+1)
				t.Boundaries = append(t.Boundaries, c.Rowid)
			}
			rec(p.Right, depth+1)
		case 0x02:
			t.Interior++
			for _, c := range p.Cells {
				rec(c.Left, depth+1)
				t.Entries++
				t.InteriorEntryIdx = append(t.InteriorEntryIdx, t.Entries)
			}
			rec(p.Right, depth+1)
		}
	}
	rec(root, 1)
	return t
}

// BtreePages gives the pages that are b-tree pages (interior or leaf) reachable
// from the given roots; overflow, free-list and pointer-map pages are not in it.
func BtreePages(img []byte, u int, roots []int) map[int]bool {
	out := map[int]bool{}
	var rec func(no, depth int)
	rec = func(no, depth int) {
		if no < 1 || out[no] || depth > 40 {
			return
		}
		p := Parse(img, u, no)
		if !p.Valid {
			return
		}
		switch p.Type {
		case 0x0d, 0x0a:
			out[no] = true
		case 0x05, 0x02:
			out[no] = true
			for _, c := range p.Cells {
				rec(c.Left, depth+1)
			}
			rec(p.Right, depth+1)
		}
	}
	for _, r := range roots {
		rec(r, 1)
	}
	return out
}

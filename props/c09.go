package props

import (
	"crypto/sha256"
	"fmt"
	"os"
	"path/filepath"
	"strings"

	"github.com/alicebob/sqlittle"

	"verif/crash"
	"verif/ops"
	"verif/sim"
	"verif/sq"
)

// C09 — a crashed writer's unfinished transaction is never read as data.
// E-CRASH: the system calls of real SQLite write transactions are recorded with
// strace; EVERY prefix (and torn variants of every write) is materialised as the
// (database, journal) pair a dead writer leaves behind; sqlittle must fail or
// return exactly what real SQLite reports after its own recovery.

func crashScenario(c *sim.Ctx) (crash.Scenario, []string, int, string, bool) {
	s := c.Src
	u := []int{512, 1024, 4096, 65536, 512, 1024}[s.Draw(6, "pagesize")]
	jm := []string{"DELETE", "TRUNCATE", "PERSIST"}[s.Draw(3, "jmode")]
	n := 30 + s.Draw(150, "rows")
	if u == 65536 {
		n = 300 + s.Draw(300, "rows64k")
	}
	// one scenario in five starts from a brand-new, zero-length database: the first
	// recorded transaction creates the schema and the rows (nothing is ever journalled
	// in it: the journal's record count and initial size stay zero)
	fresh := s.Chance(1, 5, "fresh-database")
	ddl := []string{
		"CREATE TABLE t (id INTEGER PRIMARY KEY, v TEXT, n INT)",
		"CREATE INDEX tv ON t (v)",
		"CREATE TABLE g (k TEXT PRIMARY KEY, w) WITHOUT ROWID",
	}
	setup := []string{
		fmt.Sprintf("PRAGMA page_size=%d", u),
		"PRAGMA journal_mode=" + jm,
	}
	pad := func(k int) string { return strings.Repeat("p", 10+(k*37)%90) }
	var load []string
	for i := 1; i <= n; i++ {
		load = append(load, fmt.Sprintf("INSERT INTO t VALUES (%d, 'base-%04d-%s', 0)", i, i, pad(i)))
	}
	if !fresh {
		setup = append(setup, ddl...)
		setup = append(setup, "BEGIN")
		setup = append(setup, load...)
		setup = append(setup, "COMMIT")
	}
	if !fresh && jm == "PERSIST" && s.Chance(2, 3, "persisted-journal-present") {
		// a completed transaction leaves a persisted (zero-headered) journal behind
		setup = append(setup, "UPDATE t SET n = 1 WHERE id = 1")
	}
	// the sync mode changes what the journal header looks like while the transaction
	// runs (record count 0 / -1 / n) and which syncs separate the writes
	syncMode := []string{"FULL", "NORMAL", "OFF", "FULL"}[s.Draw(4, "synchronous")]
	sc := crash.Scenario{Pragmas: []string{"PRAGMA journal_mode=" + jm, "PRAGMA cache_size=5", "PRAGMA synchronous=" + syncMode}}
	if fresh {
		sc.Pragmas = append([]string{fmt.Sprintf("PRAGMA page_size=%d", u)}, sc.Pragmas...)
		first := []string{"BEGIN IMMEDIATE"}
		first = append(first, ddl...)
		if s.Chance(2, 3, "fresh-load") {
			first = append(first, load[:1+s.Draw(len(load), "fresh-nload")]...)
		}
		sc.Txns = append(sc.Txns, append(first, "COMMIT"))
	}
	ntx := 1 + s.Draw(3, "ntxn")
	if fresh {
		ntx = s.Draw(2, "ntxn-fresh")
	}
	for t := 1; t <= ntx; t++ {
		var txn []string
		txn = append(txn, "BEGIN IMMEDIATE")
		nst := 1 + s.Draw(3, "nstmt")
		for k := 0; k < nst; k++ {
			switch s.Draw(5, "stmt") {
			case 0: // spills dirty pages before commit
				txn = append(txn, fmt.Sprintf("UPDATE t SET v = 'txn%d-' || id || '-%s', n = %d", t, strings.Repeat("u", 20+s.Draw(200, "upad")), t))
			case 1:
				a := 1 + s.Draw(n, "from")
				txn = append(txn, fmt.Sprintf("UPDATE t SET v = 'txn%d-' || id, n = %d WHERE id BETWEEN %d AND %d", t, t, a, a+s.Draw(40, "span")))
			case 2:
				a := n + 1 + 100*t
				for j := 0; j < 3+s.Draw(60, "nins"); j++ {
					txn = append(txn, fmt.Sprintf("INSERT INTO t VALUES (%d, 'txn%d-new-%s', %d)", a+j, t, pad(j), t))
				}
			case 3:
				a := 1 + s.Draw(n, "from")
				txn = append(txn, fmt.Sprintf("DELETE FROM t WHERE id BETWEEN %d AND %d", a, a+s.Draw(30, "span")))
			default:
				for j := 0; j < 2+s.Draw(20, "ging"); j++ {
					txn = append(txn, fmt.Sprintf("INSERT OR REPLACE INTO g VALUES ('k%d-%d', '%s')", t, j, strings.Repeat("g", 30+s.Draw(400, "gpad"))))
				}
			}
		}
		if s.Chance(1, 6, "rollback") {
			txn = append(txn, "ROLLBACK")
		} else {
			txn = append(txn, "COMMIT")
		}
		sc.Txns = append(sc.Txns, txn)
	}
	return sc, setup, u, jm, fresh
}

func allZero(b []byte) bool {
	for _, x := range b {
		if x != 0 {
			return false
		}
	}
	return true
}

func runC09(c *sim.Ctx) {
	s := c.Src
	e := env(c)
	dir, cleanup := e.RunDir()
	defer cleanup()
	sc, setup, u, jm, fresh := crashScenario(c)
	if fresh {
		c.Probe("fresh-database-scenario")
	}
	dbPath := filepath.Join(dir, "db")
	if err := e.W.Open("s", dbPath); err != nil {
		c.Troublef("open: %v", err)
	}
	for _, q := range setup {
		if r, err := e.W.Exec("s", q); err != nil || !r.OK {
			c.Troublef("setup %q: %v %v", q, err, r)
		}
	}
	e.W.CloseConn("s")
	pyRec := filepath.Join(filepath.Dir(sq.ScriptPath()), "crash_recorder.py")
	tr, err := crash.Record(pyRec, dbPath, sc, dir)
	if err != nil {
		c.Troublef("record: %v", err)
	}
	// fidelity: replaying the whole trace must reproduce the real files byte for byte
	final := tr.Image(len(tr.Ops), -1)
	realDB, _ := os.ReadFile(dbPath)
	realJ, jerr := os.ReadFile(dbPath + "-journal")
	if string(final.DB) != string(realDB) || final.HasJ != (jerr == nil) || (final.HasJ && string(final.Journal) != string(realJ)) {
		c.Troublef("trace replay does not reproduce the files SQLite left (db %d vs %d bytes, journal %v/%v)", len(final.DB), len(realDB), final.HasJ, jerr == nil)
	}
	nw := 0
	for _, o := range tr.Ops {
		if o.Kind == "pwrite" {
			nw++
		}
	}
	c.Log.Add("sim", "trace", "u=%d journal=%s ops=%d writes=%d txns=%d sqlerrs=%d", u, jm, len(tr.Ops), nw, len(sc.Txns), tr.SQLErrs)
	c.Sample = map[string]interface{}{"page_size": u, "journal_mode": jm, "syscalls": len(tr.Ops), "writes": nw, "transactions": sc.Txns}
	for i, t := range sc.Txns {
		c.Note("txn %d: %s", i+1, strings.Join(t, "; "))
		if i > 1 {
			break
		}
	}

	imgDir := filepath.Join(dir, "img")
	refDir := filepath.Join(dir, "ref")
	llDir := filepath.Join(dir, "ll")
	lnkDir := filepath.Join(dir, "lnk")
	for _, d := range []string{imgDir, refDir, llDir, lnkDir} {
		os.MkdirAll(d, 0o755)
	}
	// the same image reached through a symbolic link in another directory: SQLite opens
	// the file the link names and finds the journal next to THAT file
	lnkPath := filepath.Join(lnkDir, "dblink")
	if err := os.Symlink(filepath.Join(imgDir, "db"), lnkPath); err != nil {
		c.Troublef("symlink: %v", err)
	}
	// ... and through "<link to a directory>/../db": the kernel follows the link before it
	// goes up, so this names the image too (a lexical clean-up of the path would not)
	os.MkdirAll(filepath.Join(imgDir, "sub"), 0o755)
	if err := os.Symlink(filepath.Join(imgDir, "sub"), filepath.Join(lnkDir, "cur")); err != nil {
		c.Troublef("symlink: %v", err)
	}
	dotdotPath := lnkDir + "/cur/../db"
	seen := map[[32]byte]bool{}
	writePair := func(d string, f crash.Files) string {
		p := filepath.Join(d, "db")
		os.WriteFile(p, f.DB, 0o644)
		if f.HasJ {
			os.WriteFile(p+"-journal", f.Journal, 0o644)
		} else {
			os.Remove(p + "-journal")
		}
		return p
	}
	type refContent struct {
		t, g [][]sq.Val
		ix   [][]sq.Val
		ok   bool
		// the recovered database has no table t / g (a crash inside the transaction that
		// creates them): reading it must fail, never deliver rows
		noT, noG bool
	}
	reference := func(f crash.Files) refContent {
		p := writePair(refDir, f)
		var rc refContent
		if err := e.W.Open("ref", p); err != nil {
			return rc
		}
		defer e.W.CloseConn("ref")
		have := map[string]bool{}
		ms, rm, errm := e.W.Query("ref", "SELECT name FROM sqlite_master")
		if errm != nil || rm == nil || !rm.OK {
			return rc
		}
		for _, m := range ms {
			switch x := m[0].(type) {
			case string:
				have[x] = true
			case []byte:
				have[string(x)] = true
			}
		}
		var t, ix, g [][]sq.Val
		var err1, err2, err3 error
		r1, r2, r3 := rm, rm, rm
		if have["t"] {
			t, r1, err1 = e.W.Typed("ref", []string{"id", "v", "n"}, "FROM t ORDER BY id")
			if have["tv"] {
				ix, r2, err2 = e.W.Typed("ref", []string{"id", "v", "n"}, "FROM t NOT INDEXED ORDER BY v, id")
			}
		}
		if have["g"] {
			g, r3, err3 = e.W.Typed("ref", []string{"k", "w"}, "FROM g ORDER BY k")
		}
		if err1 != nil || err2 != nil || err3 != nil || r1 == nil || r2 == nil || r3 == nil || !r1.OK || !r2.OK || !r3.OK {
			if os.Getenv("VERIF_TRACE") != "" {
				fmt.Fprintf(os.Stderr, "TRACE ref failed: %v %v %v %+v %+v %+v\n", err1, err2, err3, r1, r2, r3)
			}
			return rc
		}
		// SQLite must agree with itself: integrity_check on the recovered copy
		chk, _, _ := e.W.Query("ref", "PRAGMA integrity_check")
		okText := ""
		if len(chk) == 1 {
			switch x := chk[0][0].(type) {
			case string:
				okText = x
			case []byte:
				okText = string(x)
			}
		}
		if okText != "ok" {
			return rc
		}
		return refContent{t: t, g: g, ix: ix, ok: true, noT: !have["t"] || !have["tv"], noG: !have["g"]}
	}
	check := func(k int, cut int, f crash.Files, phase string) {
		h := sha256.New()
		h.Write(f.DB)
		h.Write([]byte{0, byte(len(f.Journal)), boolByte(f.HasJ)})
		h.Write(f.Journal)
		var key [32]byte
		copy(key[:], h.Sum(nil))
		if seen[key] {
			return
		}
		seen[key] = true
		c.Eval(1)
		ref := reference(f)
		if !ref.ok {
			c.Inc("sqlite_could_not_recover", 1)
			return
		}
		journalHarmless := !f.HasJ || len(f.Journal) == 0 || allZero(f.Journal[:min(28, len(f.Journal))])
		jdesc := "absent"
		if f.HasJ {
			jdesc = fmt.Sprintf("%d bytes", len(f.Journal))
			if journalHarmless {
				jdesc += " (empty or zero header)"
			}
		}
		detail := map[string]interface{}{"crash_after_syscalls": k, "of": len(tr.Ops), "torn_cut": cut, "phase": phase, "journal": jdesc, "journal_mode": jm, "page_size": u}
		if k < len(tr.Ops) {
			detail["next_syscall"] = tr.Ops[k].String()
		}
		if k > 0 {
			detail["last_syscall"] = tr.Ops[k-1].String()
		}
		judge := func(label string, run func(op ops.Op) ops.Result) {
			type q struct {
				op     ops.Op
				want   [][]sq.Val
				absent bool
			}
			qs := []q{
				{ops.Op{Kind: "select", Table: "t", Cols: []string{"id", "v", "n"}}, ref.t, ref.noT},
				{ops.Op{Kind: "ixselect", Table: "t", Index: "tv", Cols: []string{"id", "v", "n"}}, ref.ix, ref.noT},
				{ops.Op{Kind: "select", Table: "g", Cols: []string{"k", "w"}}, ref.g, ref.noG},
			}
			for _, x := range qs {
				r := run(x.op)
				if r.Panic != nil {
					c.Fail("panic", "panic:"+phase, fmt.Sprintf("%s panicked on a crash image: %v", x.op.String(), r.Panic), detail)
					return
				}
				if x.absent {
					// after SQLite's recovery the table (or its index) does not exist
					if r.Err == nil || len(r.Rows) > 0 {
						c.Fail("unrecovered-data-read", "unrecovered-object:"+phase, fmt.Sprintf("[%s] crash after %d/%d syscalls (%s, journal %s): %s returned %d rows, err=%v; after SQLite's recovery that table/index does not exist", label, k, len(tr.Ops), phase, jdesc, x.op.String(), len(r.Rows), r.Err), detail)
						return
					}
					c.Probe("object-absent-after-recovery")
					continue
				}
				if r.Err != nil {
					if len(r.Rows) > 0 {
						// rows then error: acceptable only if the rows are a prefix of the recovered content
						if okp, _ := prefixOf(r.Rows, x.want); !okp {
							c.Fail("unrecovered-data-read", "rows-then-error:"+phase, fmt.Sprintf("[%s] crash after %d/%d syscalls (%s): %s delivered %d rows that are not SQLite's recovered content, then failed: %v", label, k, len(tr.Ops), phase, x.op.String(), len(r.Rows), r.Err), detail)
							return
						}
					}
					if journalHarmless {
						c.Fail("harmless-journal-prevents-reading", "refused:"+phase, fmt.Sprintf("[%s] crash after %d/%d syscalls (%s): journal is %s, yet %s failed: %v", label, k, len(tr.Ops), phase, jdesc, x.op.String(), r.Err), detail)
						return
					}
					c.Inc("refused_images", 1)
					return
				}
				if eq, at := rowsEq(x.want, r.Rows, false); !eq {
					detail["row"] = at
					detail["want"] = fmtRows(x.want, at)
					detail["got"] = fmtRows(r.Rows, at)
					c.Fail("unrecovered-data-read", "unrecovered:"+phase, fmt.Sprintf("[%s] crash after %d/%d syscalls (%s, journal %s): %s returned rows that differ from what SQLite reports after recovery at row %d: want %s got %s", label, k, len(tr.Ops), phase, jdesc, x.op.String(), at, fmtRows(x.want, at), fmtRows(r.Rows, at)), detail)
					return
				}
			}
			c.Inc("read_equal_to_recovered", 1)
			if f.HasJ && !journalHarmless {
				c.Probe("read-with-nonempty-journal-present")
			}
		}
		// fresh handle
		p := writePair(imgDir, f)
		d, err := sqlittleOpen(p)
		if err != nil {
			if journalHarmless && !(ref.noT && ref.noG) {
				c.Fail("harmless-journal-prevents-reading", "open-refused:"+phase, fmt.Sprintf("crash after %d/%d syscalls (%s): journal is %s, yet Open failed: %v", k, len(tr.Ops), phase, jdesc, err), detail)
			}
			c.Inc("refused_images", 1)
			if ref.noT && ref.noG {
				c.Probe("empty-after-recovery-refused")
			}
		} else {
			judge("fresh handle", func(op ops.Op) ops.Result { return ops.Run(d, op, nil) })
			d.Close()
		}
		if (k+cut)%5 == 0 {
			lp, how := lnkPath, "handle opened through a symbolic link"
			if (k+cut)%10 == 0 {
				lp, how = dotdotPath, "handle opened through <directory link>/../db"
			}
			if dl, err := sqlittleOpen(lp); err == nil {
				judge(how, func(op ops.Op) ops.Result { return ops.Run(dl, op, nil) })
				dl.Close()
				c.Probe("opened-through-symlink")
			} else {
				c.Probe("refused-through-symlink")
			}
		}
		// long-lived handle that cached the pre-transaction state (one image in six)
		// ... and, one in six, a handle that was opened before the transaction and has not
		// read anything yet: its first read meets the crash image
		if (k+cut)%6 == 0 || (k+cut)%6 == 3 {
			warm := (k+cut)%6 == 0
			base := crash.Files{DB: tr.BaseDB, Journal: tr.BaseJrnl, HasJ: tr.HasJrnl}
			lp := writePair(llDir, base)
			// one handle in four is opened by a relative name, and the process then changes
			// its working directory: the journal still lives next to the database file
			relative := (k+cut)%24 == 3 || (k+cut)%24 == 12
			var ld *sqlittle.DB
			var err error
			if relative {
				if wd, werr := os.Getwd(); werr == nil && os.Chdir(llDir) == nil {
					ld, err = sqlittleOpen("db")
					os.Chdir(wd)
					c.Probe("relative-open-then-chdir")
				} else {
					ld, err = sqlittleOpen(lp)
				}
			} else {
				ld, err = sqlittleOpen(lp)
			}
			if err == nil {
				if warm {
					ops.Run(ld, ops.Op{Kind: "select", Table: "t", Cols: []string{"id", "v", "n"}}, nil)
					ops.Run(ld, ops.Op{Kind: "ixselect", Table: "t", Index: "tv", Cols: []string{"id"}}, nil)
				}
				// the crash image replaces the files in place (same inodes)
				if fh, err := os.OpenFile(lp, os.O_WRONLY, 0); err == nil {
					fh.WriteAt(f.DB, 0)
					fh.Truncate(int64(len(f.DB)))
					fh.Close()
				}
				if f.HasJ {
					os.WriteFile(lp+"-journal", f.Journal, 0o644)
				} else {
					os.Remove(lp + "-journal")
				}
				if warm {
					judge("long-lived handle", func(op ops.Op) ops.Result { return ops.Run(ld, op, nil) })
					c.Probe("long-lived-handle-image")
				} else {
					judge("handle opened before the transaction, first read after the crash", func(op ops.Op) ops.Result { return ops.Run(ld, op, nil) })
					c.Probe("idle-handle-image")
				}
				ld.Close()
			}
		}
		c.State(phase, journalHarmless, jm)
	}
	phaseOf := func(k int) string {
		if k >= len(tr.Ops) {
			return "after-last-syscall"
		}
		o := tr.Ops[k]
		return "before-" + o.Kind + "-" + o.File
	}
	tr.Walk(func(k int, f crash.Files) {
		check(k, -1, f, phaseOf(k))
		c.Fault("writer-crash")
	})
	// torn variants of every write (quick tier: bounded per run; every syscall
	// boundary above has already been visited)
	// torn variants per run are bounded in both tiers (every syscall boundary has been
	// visited above); unbounded, a 64 KiB-page trace takes longer than the run watchdog allows
	budget := 8000
	if c.Tier != "thorough" {
		budget = 900
	}
	maxTorn := 6
	for k, o := range tr.Ops {
		if o.Kind != "pwrite" || len(o.Data) < 2 {
			continue
		}
		cuts := map[int]bool{}
		nb := 0
		for b := 512; b < len(o.Data); b += 512 {
			if nb < maxTorn || c.Tier == "thorough" {
				cuts[b] = true
				nb++
			}
		}
		for i := 0; i < 3; i++ {
			cuts[1+s.Draw(len(o.Data)-1, "cut")] = true
		}
		var cl []int
		for x := range cuts {
			cl = append(cl, x)
		}
		sortInts(cl)
		for _, cut := range cl {
			if int(c.Stats["eval"]) >= budget {
				c.Inc("torn_variants_skipped_by_quick_budget", 1)
				continue
			}
			check(k, cut, tr.Image(k, cut), "torn-pwrite-"+o.File)
			c.Fault("torn-write")
		}
	}
	c.Nontrivial = nw > 2
	if jm == "PERSIST" && tr.HasJrnl {
		c.Probe("persisted-journal-in-base")
	}
}

func boolByte(b bool) byte {
	if b {
		return 1
	}
	return 0
}

func init() {
	sim.Register(&sim.Prop{
		ID: "C09", Engine: "E-CRASH", Level: "fault_enumeration", Fn: runC09, NewEnv: NewEnv,
		Runs: map[string]int{"quick": 32, "thorough": 160},
		Rule: "per run: a scenario (page size 512/1024/4096/65536, journal mode DELETE/TRUNCATE/PERSIST incl. a second transaction over a persisted journal, cache_size 5 so dirty pages spill before commit, 1-3 transactions of updates/inserts/deletes/rollbacks; one scenario in five starts from a zero-length database whose first recorded transaction creates schema and rows) is executed by real SQLite under strace; the parsed trace must reproduce SQLite's final files byte for byte; then EVERY system-call boundary is a crash point and every write is additionally torn at each 512-byte boundary (first 6 in quick) and 3 drawn byte positions (up to 900 / 8000 images per run in the quick / thorough tier); each distinct (database, journal) pair is read through a fresh sqlittle handle, one in five also through a symbolic link in another directory, and, one in six each, through a long-lived handle that cached the pre-transaction state and through a handle opened before the transaction whose first read comes after the crash; oracle: a copy is opened by real SQLite (own recovery + integrity_check) - sqlittle must fail or return exactly that content, a table that does not exist after SQLite's recovery must not be readable, and sqlittle may not fail when the journal is absent, empty or zero-headered (unless the recovered database is empty); evaluations = distinct crash images; non-trivial run = trace with >2 writes; states = (crash phase, journal harmless?, journal mode)",
		Real: append([]string{"unix file pager + journal check on real files; crash images are produced from real SQLite's recorded system calls"}, realAll...),
		Stub: []string{"the dying writer process is represented by its recorded system calls applied to file copies (process death loses no completed write; power loss is out of the property's quantifier)"},
		Assumptions: []string{"strace output parsed for openat/pwrite64/write/ftruncate/fsync/fdatasync/unlink/fcntl/close on the database and its journal; fidelity is checked per trace", "images on which SQLite itself cannot recover a consistent database are counted as inconclusive"},
		MaxRunSecs: 1800,
		Vacuity: func(st map[string]int64, runs int, tier string) error {
			if st["refused_images"] == 0 || st["read_equal_to_recovered"] == 0 {
				return fmt.Errorf("refused=%d equal=%d", st["refused_images"], st["read_equal_to_recovered"])
			}
			for _, p := range []string{"long-lived-handle-image", "idle-handle-image", "persisted-journal-in-base", "fresh-database-scenario", "empty-after-recovery-refused"} {
				if st["probe."+p] == 0 {
					return fmt.Errorf("reach probe %q is zero", p)
				}
			}
			if st["sqlite_could_not_recover"]*10 > st["eval"] {
				return fmt.Errorf("SQLite could not recover %d of %d images", st["sqlite_could_not_recover"], st["eval"])
			}
			return nil
		},
	})
}

package props

import (
	"encoding/json"
	"path/filepath"
	"reflect"
	sdb "github.com/alicebob/sqlittle/db"
	"verif/fold"
	"fmt"
	"hash/fnv"
	"os"
	"strings"
	"time"

	"github.com/alicebob/sqlittle"
	"github.com/anishathalye/porcupine"

	"verif/ops"
	"verif/sim"
	"verif/sq"
	"verif/world"
)

// C08 — each read transaction reflects the latest committed database state.
// Long-lived handles (drawn cache sizes) opened at drawn points of a writer
// history of DML, DDL, VACUUM, auto-vacuum, growth and page reuse; after every
// commit every handle reads; oracle = SQLite's snapshot of that version, plus a
// porcupine check of the recorded (commit | read) history.

type c08Handle struct {
	name   string
	d      *sqlittle.DB
	cache  int
	opened int   // version at open
	size   int64 // file size at open
	// the last rowid lookup of the previous read: repeated first thing in the next one,
	// so that the same lookup is made twice with nothing but a foreign commit in between
	lastTable string
	lastRowid int64
}

type histIn struct {
	commit  bool
	version int
	table   string
}

type c08State struct {
	handles []*c08Handle
	hist    []porcupine.Operation
	hashes  map[int]map[string]uint64 // version -> table -> content hash
	seq     int64
}

func tableHash(rows [][]sq.Val) uint64 {
	h := fnv.New64a()
	for _, r := range rows {
		h.Write([]byte(sq.FmtRowExact(r)))
	}
	return h.Sum64()
}

const absentHash = 0xdead0000dead0000

func (st *c08State) record(client int, in histIn, out uint64) {
	st.seq++
	call := st.seq
	st.seq++
	st.hist = append(st.hist, porcupine.Operation{ClientId: client, Input: in, Call: call, Output: out, Return: st.seq})
}

func c08Read(c *sim.Ctx, w *world.World, st *c08State, hi int, h *c08Handle, repeat bool) {
	s := c.Src
	grew := false
	if fi, err := os.Stat(w.Path); err == nil && fi.Size() > h.size {
		grew = true
	}
	cfg := "no-growth"
	if grew {
		cfg = "growth"
		c.Probe("read-after-file-growth")
	}
	if w.Version-h.opened > 0 {
		c.Probe("read-after-foreign-commit")
	}
	if w.InWAL {
		// the file is in WAL mode: its committed content is partly in the -wal file, a
		// rollback-journal reader must refuse every read (and recover when the file comes back)
		for _, t := range w.Snap.Tables {
			r := ops.Run(h.d, ops.Op{Kind: "select", Table: t.Name, Cols: []string{t.ColNames()[0]}}, nil)
			c.Eval(1)
			if r.Panic == nil && (r.Err == nil || len(r.Rows) > 0) {
				c.Fail("wal-read", "read-in-wal-phase", fmt.Sprintf("handle %s (opened at v%d) read %s (%d rows, err %v) while the file is in WAL mode", h.name, h.opened, t.Name, len(r.Rows), r.Err), nil)
			}
			c.Probe("refused-in-wal-phase")
		}
		return
	}
	if h.lastTable != "" {
		if t := w.Snap.Table(h.lastTable); t != nil && !t.WithoutRowid && t.HasRows {
			cols := t.ColNames()
			rr := ops.Run(h.d, ops.Op{Kind: "rowid", Table: t.Name, Rowid: h.lastRowid, Cols: cols}, nil)
			c.Eval(1)
			if rr.Panic == nil && rr.Err == nil {
				k := -1
				for i, r := range t.Rowids {
					if r == h.lastRowid {
						k = i
					}
				}
				c.Probe("rowid-lookup-repeated-across-commit")
				switch {
				case k < 0 && !rr.NilRow:
					c.Fail("stale-read", "stale-rowid-lookup:phantom:"+cfg, fmt.Sprintf("handle %s (opened at v%d) SelectRowid(%s, %d) at v%d - the lookup it made last at the previous version - returned a row, SQLite has none", h.name, h.opened, t.Name, h.lastRowid, w.Version), nil)
				case k >= 0 && (rr.NilRow || len(rr.Rows) != 1):
					c.Fail("stale-read", "stale-rowid-lookup:"+cfg, fmt.Sprintf("handle %s (opened at v%d) SelectRowid(%s, %d) at v%d found no row, SQLite has it", h.name, h.opened, t.Name, h.lastRowid, w.Version), nil)
				case k >= 0:
					wantRow := [][]sq.Val{projectRow(t, k, cols)}
					if eq, _ := rowsEqModDefaults(c, t, cols, wantRow, rr.Rows); !eq {
						c.Fail("stale-read", "stale-rowid-lookup:"+cfg, fmt.Sprintf("handle %s (opened at v%d) repeated SelectRowid(%s, %d) at v%d = %s, SQLite: %s", h.name, h.opened, t.Name, h.lastRowid, w.Version, fmtRows(rr.Rows, 0), fmtRows(wantRow, 0)), nil)
					}
				}
			}
		}
		h.lastTable = ""
	}
	defer func() {
		// the last thing this read does: one more lookup, remembered for the next read
		for _, t := range w.Snap.Tables {
			if !t.WithoutRowid && t.HasRows && len(t.Rowids) > 0 {
				if acc, _ := accepted(h.d, t.Name); !acc {
					continue
				}
				rid := t.Rowids[s.Draw(len(t.Rowids), "lastlookup")]
				ops.Run(h.d, ops.Op{Kind: "rowid", Table: t.Name, Rowid: rid, Cols: t.ColNames()}, nil)
				h.lastTable, h.lastRowid = t.Name, rid
				return
			}
		}
	}()
	// the definitions this handle reports must be the ones a handle opened right now
	// reports (tables, columns, primary key and every index with its columns): whatever
	// sqlittle makes of a definition, it may not depend on what the handle saw earlier
	if fresh, err := sqlittle.Open(w.Path); err == nil {
		for _, t := range w.Snap.Tables {
			a := ops.Run(h.d, ops.Op{Kind: "schema", Table: t.Name, Lock: true}, nil)
			b := ops.Run(fresh, ops.Op{Kind: "schema", Table: t.Name, Lock: true}, nil)
			c.Eval(1)
			if a.Panic != nil || b.Panic != nil {
				continue
			}
			if (a.Err == nil) != (b.Err == nil) || (a.Err == nil && !reflect.DeepEqual(a.Schema, b.Schema)) {
				c.Fail("stale-schema", "stale-definition:"+cfg, fmt.Sprintf("handle %s (opened at v%d) Schema(%s) at v%d differs from what a fresh handle reports: %s (err %v) vs %s (err %v)", h.name, h.opened, t.Name, w.Version, fmtSchema(a.Schema), a.Err, fmtSchema(b.Schema), b.Err),
					map[string]interface{}{"handle": h.name, "opened_at_version": h.opened, "version": w.Version, "table": t.Name})
			}
			c.Probe("definition-compared-with-fresh-handle")
		}
		fresh.Close()
	}
	// tables that exist now, plus one that was dropped (must be an error)
	for _, t := range w.Snap.Tables {
		if !t.HasRows {
			continue
		}
		cols := t.ColNames()
		want, _ := project(t, cols)
		kind := "select"
		lock := false
		if s.Chance(1, 4, "lowlevel") {
			// explicit RLock/RUnlock bracket spanning several scans
			lock = true
		}
		var r ops.Result
		if lock {
			low := h.d.VerifLow()
			if err := low.RLock(); err != nil {
				c.Fail("lock-error", "rlock-error", fmt.Sprintf("RLock on an idle database failed: %v", err), nil)
				return
			}
			r1 := ops.Run(h.d, ops.Op{Kind: "schema", Table: t.Name}, nil)
			_ = r1
			if t.WithoutRowid {
				r = ops.Run(h.d, ops.Op{Kind: "iscan", Table: t.Name}, nil)
			} else {
				r = ops.Run(h.d, ops.Op{Kind: "tscan", Table: t.Name}, nil)
			}
			low.RUnlock()
			kind = "low-level bracket"
			c.Probe("low-level-bracket-read")
		} else {
			r = ops.Run(h.d, ops.Op{Kind: "select", Table: t.Name, Cols: cols}, nil)
		}
		c.Eval(1)
		detail := map[string]interface{}{"handle": h.name, "cache_pages": h.cache, "opened_at_version": h.opened, "version": w.Version, "table": t.Name, "config": cfg, "api": kind}
		if r.Panic != nil {
			c.Fail("panic", "panic:read", fmt.Sprintf("read panicked: %v", r.Panic), detail)
			continue
		}
		if r.Err != nil {
			if acc, _ := accepted(h.d, t.Name); !acc {
				c.Inc("rejected_definitions", 1)
				continue
			}
			sig := "stale-error:" + cfg
			if grew && (strings.Contains(r.Err.Error(), "EOF") || strings.Contains(r.Err.Error(), "invalid ReadAt offset")) {
				sig = "eof-after-growth"
			}
			c.Fail("read-error-after-commit", sig, fmt.Sprintf("handle %s (opened at v%d, cache %d) failed to read %s at v%d via %s: %v", h.name, h.opened, h.cache, t.Name, w.Version, kind, r.Err), detail)
			st.record(1+hi, histIn{false, w.Version, t.Name}, 1)
			continue
		}
		if lock {
			// raw records: compare counts (+ rowids) only
			if len(r.Rows) != len(t.Rows) {
				c.Fail("stale-read", "stale-count:"+cfg, fmt.Sprintf("handle %s (opened at v%d) low-level scan of %s at v%d: %d records, SQLite has %d", h.name, h.opened, t.Name, w.Version, len(r.Rows), len(t.Rows)), detail)
			}
			continue
		}
		got := tableHash(r.Rows)
		_ = got
		if eq, at := rowsEqModDefaults(c, t, cols, want, r.Rows); !eq {
			detail["row"] = at
			detail["want"] = fmtRows(want, at)
			detail["got"] = fmtRows(r.Rows, at)
			// is it an older version's content? (names the bug: staleness vs garbage)
			older := -1
			for v := w.Version - 1; v >= h.opened && v >= 0; v-- {
				if hv, ok := st.hashes[v][fold.Lower(t.Name)]; ok && hv == got {
					older = v
					break
				}
			}
			detail["equals_older_version"] = older
			sig := "stale-read:" + cfg
			if older < 0 {
				sig = "wrong-read:" + cfg
			}
			if repeat {
				sig += ":repeat"
			}
			c.Fail("stale-read", sig, fmt.Sprintf("handle %s (opened at v%d, cache %d) read %s at v%d: differs from the committed content at row %d (want %s got %s; equals content of older version: %d)", h.name, h.opened, h.cache, t.Name, w.Version, at, fmtRows(want, at), fmtRows(r.Rows, at), older), detail)
			st.record(1+hi, histIn{false, w.Version, t.Name}, got)
			continue
		}
		// feed porcupine with the model's own hash when equal modulo documented relaxations
		st.record(1+hi, histIn{false, w.Version, t.Name}, st.hashes[w.Version][fold.Lower(t.Name)])
		c.Nontrivial = c.Nontrivial || (w.Version-h.opened > 0 && len(t.Rows) > 0)
		// schema through this handle
		rc := ops.Run(h.d, ops.Op{Kind: "columns", Table: t.Name}, nil)
		c.Eval(1)
		if rc.Err == nil && !strsEqFold(rc.Strs, cols) {
			c.Fail("stale-schema", "stale-columns:"+cfg, fmt.Sprintf("handle %s (opened at v%d) Columns(%s) at v%d = %v, SQLite: %v", h.name, h.opened, t.Name, w.Version, rc.Strs, cols), detail)
		}
		// the same few rowids looked up again and again through this handle (a lookup
		// answered from what an earlier transaction saw is a stale read like any other)
		if !t.WithoutRowid && len(t.Rowids) > 0 {
			pick := []int{0, len(t.Rowids) - 1, len(t.Rowids) / 2}
			for _, k := range pick {
				rid := t.Rowids[k]
				rr := ops.Run(h.d, ops.Op{Kind: "rowid", Table: t.Name, Rowid: rid, Cols: cols}, nil)
				c.Eval(1)
				if rr.Panic != nil || rr.Err != nil {
					continue // errors are judged by the scan above
				}
				c.Probe("rowid-lookup-on-long-lived-handle")
				wantRow := [][]sq.Val{projectRow(t, k, cols)}
				if rr.NilRow || len(rr.Rows) != 1 {
					c.Fail("stale-read", "stale-rowid-lookup:"+cfg, fmt.Sprintf("handle %s (opened at v%d) SelectRowid(%s, %d) at v%d found no row, SQLite has it", h.name, h.opened, t.Name, rid, w.Version), detail)
				} else if eq, _ := rowsEqModDefaults(c, t, cols, wantRow, rr.Rows); !eq {
					c.Fail("stale-read", "stale-rowid-lookup:"+cfg, fmt.Sprintf("handle %s (opened at v%d) SelectRowid(%s, %d) at v%d = %s, SQLite: %s", h.name, h.opened, t.Name, rid, w.Version, fmtRows(rr.Rows, 0), fmtRows(wantRow, 0)), detail)
				}
			}
			// and a rowid that does not exist (it may have existed at an older version)
			gone := t.Rowids[len(t.Rowids)-1]
			if gone < 1<<62 {
				rr := ops.Run(h.d, ops.Op{Kind: "rowid", Table: t.Name, Rowid: gone + 1, Cols: cols}, nil)
				c.Eval(1)
				if rr.Panic == nil && rr.Err == nil && !rr.NilRow {
					c.Fail("stale-read", "stale-rowid-lookup:phantom:"+cfg, fmt.Sprintf("handle %s (opened at v%d) SelectRowid(%s, %d) at v%d returned a row, SQLite has none", h.name, h.opened, t.Name, gone+1, w.Version), detail)
				}
			}
		}
		// one index through this handle
		if len(t.Indexes) > 0 {
			ix := t.Indexes[s.Draw(len(t.Indexes), "ix")]
			if !(t.WithoutRowid && ix.Origin == "pk") {
				checkIndexedSelectStale(c, h, w, t, ix, cfg)
			}
		}
	}
	// a table that existed at an older version and is gone now must be an error
	for v := w.Version - 1; v >= h.opened && v >= w.Version-3 && v >= 0; v-- {
		for name := range st.hashes[v] {
			if w.Snap.Table(name) == nil {
				r := ops.Run(h.d, ops.Op{Kind: "select", Table: name, Cols: []string{"rowid"}}, nil)
				c.Eval(1)
				if r.Err == nil && r.Panic == nil {
					c.Fail("stale-schema", "dropped-table-readable:"+cfg, fmt.Sprintf("handle %s (opened at v%d) still reads table %s at v%d although it was dropped/renamed", h.name, h.opened, name, w.Version), nil)
				}
				c.Probe("dropped-table-read-attempt")
				st.record(1+hi, histIn{false, w.Version, name}, absentHash)
				return
			}
		}
	}
}

func checkIndexedSelectStale(c *sim.Ctx, h *c08Handle, w *world.World, t *sq.Table, ix *sq.Index, cfg string) {
	cols := t.ColNames()
	r := ops.Run(h.d, ops.Op{Kind: "ixselect", Table: t.Name, Index: ix.Name, Cols: cols}, nil)
	c.Eval(1)
	if r.Panic != nil || isNoSuchIndex(r.Err) || !ix.HasEntries {
		return
	}
	detail := map[string]interface{}{"handle": h.name, "cache_pages": h.cache, "opened_at_version": h.opened, "version": w.Version, "index": ix.Name, "config": cfg}
	if r.Err != nil {
		sig := "stale-index-error:" + cfg
		if cfg == "growth" && (strings.Contains(r.Err.Error(), "EOF") || strings.Contains(r.Err.Error(), "invalid ReadAt offset")) {
			sig = "eof-after-growth"
		}
		c.Fail("read-error-after-commit", sig, fmt.Sprintf("handle %s (opened at v%d) IndexedSelect(%s,%s) at v%d failed: %v", h.name, h.opened, t.Name, ix.Name, w.Version, r.Err), detail)
		return
	}
	want := make([][]sq.Val, len(ix.Entries))
	for i, e := range ix.Entries {
		want[i] = projectRow(t, e.Pos, cols)
	}
	if eq, at := rowsEqModDefaults(c, t, cols, want, r.Rows); !eq {
		// is it staleness (a fresh handle reads it right) or does every handle read it so?
		fr := ops.Result{}
		if fd, err := sqlittle.Open(w.Path); err == nil {
			fr = ops.Run(fd, ops.Op{Kind: "ixselect", Table: t.Name, Index: ix.Name, Cols: cols}, nil)
			fd.Close()
		}
		freshSame, _ := rowsEq(fr.Rows, r.Rows, false)
		detail["fresh_handle_reads_the_same"] = freshSame
		detail["want"] = fmtRows(want, at)
		detail["got"] = fmtRows(r.Rows, at)
		if freshSame {
			// not a property of the handle's history: index order / content questions belong to
			// C02 (which compares fresh handles with SQLite); counted, not reported here
			c.Inc("index_read_differs_on_fresh_handle_too", 1)
			if dir := os.Getenv("VERIF_C08_DUMP"); dir != "" {
				// diagnosis aid, off by default: keep the database and what was read
				detail["table"] = t.Name
				b, _ := json.MarshalIndent(detail, "", " ")
				name := filepath.Join(dir, fmt.Sprintf("c08-%d-%d", os.Getpid(), w.Version))
				os.WriteFile(name+".json", b, 0o644)
				if img, err := os.ReadFile(w.Path); err == nil {
					os.WriteFile(name+".sqlite", img, 0o644)
				}
			}
			return
		}
		c.Fail("stale-read", "stale-index-read:"+cfg, fmt.Sprintf("handle %s (opened at v%d, cache %d) IndexedSelect(%s,%s) at v%d differs from the committed content at row %d: want %s got %s (a fresh handle reads %d rows, the same as this handle: %v)", h.name, h.opened, h.cache, t.Name, ix.Name, w.Version, at, fmtRows(want, at), fmtRows(r.Rows, at), len(fr.Rows), freshSame), detail)
	}
}

func runC08(c *sim.Ctx) {
	s := c.Src
	e := env(c)
	dir, cleanup := e.RunDir()
	defer cleanup()
	prof := world.Profile{PageSizes: []int{512, 1024, 4096, 512}, MaxTables: 3, RowsLo: 0, RowsHi: 150, Fancy: 2, DDL: true, Vacuum: true,
		Boundary: true, LongKeys: 2, WithoutRow: 2, IndexesHi: 2, WALTrip: true, CounterWrap: true}
	big := s.Chance(1, 3, "big") // databases above the 100-page cache
	if big {
		prof.RowsHi = 900
		prof.PageSizes = []int{512}
	}
	w := world.New(c, e.W, dir, prof)
	defer w.Close()
	st := &c08State{hashes: map[int]map[string]uint64{}}
	defer func() {
		for _, h := range st.handles {
			h.d.Close()
		}
	}()
	nh := 1 + s.Draw(3, "nhandles")
	openAt := make([]int, nh)
	for i := range openAt {
		openAt[i] = 2 + s.Draw(8, "openat")
	}
	w.OnCommit = func() {
		if w.Snap == nil {
			return
		}
		// model: per-version hashes
		hv := map[string]uint64{}
		for _, t := range w.Snap.Tables {
			if t.HasRows {
				rows, _ := project(t, t.ColNames())
				hv[fold.Lower(t.Name)] = tableHash(rows)
			}
		}
		st.hashes[w.Version] = hv
		st.record(0, histIn{true, w.Version, ""}, 0)
		if len(w.Snap.Tables) == 0 {
			return
		}
		for i, at := range openAt {
			if at == w.Version && w.InWAL {
				openAt[i]++ // a WAL file cannot be opened (C15): this handle opens one commit later
				continue
			}
			if at == w.Version {
				cache := cacheKnob[s.Draw(len(cacheKnob), "cache")]
				d := openFresh(c, w.Path, cache)
				fi, _ := os.Stat(w.Path)
				st.handles = append(st.handles, &c08Handle{name: fmt.Sprintf("H%d", i), d: d, cache: cache, opened: w.Version, size: fi.Size()})
				c.Log.Add(fmt.Sprintf("H%d", i), "open", "v%d cache=%d", w.Version, cache)
			}
		}
		for hi, h := range st.handles {
			// a handle may sit idle over one or more commits (also right after it was
			// opened: its first read then meets a state it has never seen)
			if s.Chance(1, 4, "idle") {
				c.Probe("handle-idle-over-a-commit")
				continue
			}
			c08Read(c, w, st, hi, h, false)
			if s.Chance(1, 3, "repeat") {
				c08Read(c, w, st, hi, h, true) // no intervening write: cache-hit path must be identical
				c.Probe("repeat-read-cache-hit")
			}
		}
		c.State(len(st.handles), w.Version > 6, big)
	}
	w.Build()
	steps := 6 + s.Draw(14, "steps")
	for i := 0; i < steps; i++ {
		w.Step()
	}
	// porcupine over the whole recorded history
	model := porcupine.Model{
		Init: func() interface{} { return 0 },
		Step: func(state, input, output interface{}) (bool, interface{}) {
			in := input.(histIn)
			if in.commit {
				return true, in.version
			}
			v := state.(int)
			want, ok := st.hashes[v][fold.Lower(in.table)]
			if !ok {
				want = absentHash
			}
			return output.(uint64) == want, state
		},
	}
	if len(st.hist) > 0 {
		hist := st.hist
		if len(hist) > 600 {
			hist = hist[len(hist)-600:]
			// start state: replay commits before the window
		}
		if len(hist) == len(st.hist) {
			res := porcupine.CheckOperationsTimeout(model, hist, 20*time.Second)
			c.Eval(1)
			switch res {
			case porcupine.Illegal:
				c.Fail("history-not-linearizable", "porcupine-illegal", "the recorded (commit | read) history is not explained by the single-copy model: some read returned content of another version", nil)
			case porcupine.Unknown:
				c.Inc("porcupine_inconclusive", 1)
			default:
				c.Probe("porcupine-history-ok")
			}
		}
	}
	c.Sample = map[string]interface{}{"page_size": w.PageSz, "commits": w.Commits, "handles": len(st.handles), "history_ops": len(st.hist)}
}

func init() {
	sim.Register(&sim.Prop{
		ID: "C08", Engine: "E-WORLD", Level: "exploration", Fn: runC08, NewEnv: NewEnv,
		Runs: map[string]int{"quick": 160, "thorough": 5000},
		Rule: "per run: a writer history of 10-30 committed transactions through real SQLite (DML, DDL, index create/drop, growth, VACUUM shrink, auto-vacuum, DROP+CREATE page reuse; one run in three above the 100-page cache); 1-3 long-lived handles opened at drawn versions with drawn cache sizes {1,2,5,20,100}; after EVERY commit every handle reads every table (high-level Select or an explicit RLock/RUnlock bracket), Columns, one index, a dropped table; one read in three is repeated with no intervening write; oracle: equality with SQLite's snapshot of the then-current version (stale content is recognised by matching older versions' hashes) and a porcupine check of the whole (commit | read) history; evaluations = reads; non-trivial = a handle read non-empty content committed after it was opened; distinct = distinct event logs; states = (handles, history length class, above-cache)",
		Real: append([]string{"unix file pager on real files (memory map sized at open), page cache, schema cache"}, realAll...), Stub: []string{},
		Assumptions: []string{"single-process lock-step: reads never overlap commits here (overlap is C06/C07), so the porcupine check degenerates to per-read equality; it is kept as the history oracle", "runs are labelled growth / no-growth (file larger than when the handle was opened) so that findings about the fixed-size memory map cannot mask staleness bugs"},
		MaxRunSecs: 600,
		Vacuity: func(stt map[string]int64, runs int, tier string) error {
			for _, p := range []string{"read-after-foreign-commit", "read-after-file-growth", "repeat-read-cache-hit", "low-level-bracket-read", "dropped-table-read-attempt", "porcupine-history-ok"} {
				if stt["probe."+p] == 0 {
					return fmt.Errorf("reach probe %q is zero", p)
				}
			}
			return nil
		},
	})
}

func fmtSchema(sc *sdb.Schema) string {
	if sc == nil {
		return "<nil>"
	}
	var ix []string
	for _, i := range sc.Indexes {
		var cs []string
		for _, c := range i.Columns {
			n := c.Column
			if n == "" {
				n = "<" + c.Expression + ">"
			}
			cs = append(cs, fmt.Sprintf("%s/%s/%v", n, c.Collate, c.SortOrder))
		}
		ix = append(ix, i.Index+"("+strings.Join(cs, ",")+")")
	}
	return fmt.Sprintf("%d columns, pk %q, indexes [%s]", len(sc.Columns), sc.PrimaryKey, strings.Join(ix, " "))
}

package props

import (
	"encoding/binary"
	"fmt"

	"verif/pagewalk"
	"verif/sim"
)

// A storage fault on the simulated disk: returns the new image, a description
// and a coarse class (for signatures and counters).
type corruption struct {
	class string
	desc  string
	apply func(img []byte) []byte
}

var hostileVarints = [][]byte{
	{0x00}, {0x01}, {0x7f}, {0x81, 0x00}, {0xff, 0x7f}, {0xff, 0xff, 0x7f},
	{0xff, 0xff, 0xff, 0xff, 0xff, 0xff, 0xff, 0xff, 0xff}, // -1 as 9-byte varint
	{0x80, 0x80, 0x80, 0x80, 0x80, 0x80, 0x80, 0x80, 0x80}, // 9-byte, value 0x80
	{0xff, 0xff, 0xff, 0xff, 0xff, 0xff, 0xff, 0xff, 0x00}, // negative, big magnitude
	{0xc0, 0x80, 0x80, 0x80, 0x80, 0x80, 0x80, 0x80, 0x00}, // 1<<62 ... sign region
	{0xbf, 0xff, 0xff, 0xff, 0xff, 0xff, 0xff, 0xff, 0xff}, // max positive
	{0x87, 0xff, 0xff, 0xff, 0x7f},                         // ~2^31
	{0x0a}, {0x0b}, {0x0c}, {0x0d}, {0x8f, 0x7f},
}

func writeAt(img []byte, off int, b []byte) []byte {
	out := append([]byte(nil), img...)
	for i, c := range b {
		if off+i < len(out) {
			out[off+i] = c
		}
	}
	return out
}

// drawCorruption picks one structure-aware or blind fault for the image.
func drawCorruption(s *sim.Src, img []byte, prev []byte) corruption {
	u, pages := pagewalk.Walk(img)
	npages := len(pages)
	if u == 0 || npages == 0 {
		return blind(s, img)
	}
	var valid []*pagewalk.Page
	for _, p := range pages {
		if p.Valid {
			valid = append(valid, p)
		}
	}
	if len(valid) == 0 {
		return blind(s, img)
	}
	pickPage := func() *pagewalk.Page { return valid[s.Draw(len(valid), "page")] }
	pagePtrValue := func(self int) uint32 {
		switch s.Draw(8, "ptrval") {
		case 0:
			return uint32(self)
		case 1:
			return 1
		case 2:
			return 0
		case 3:
			return uint32(npages + 1)
		case 4:
			return 0x7fffffff
		case 5:
			return 0xffffffff
		default:
			return uint32(1 + s.Draw(npages, "ptrpage"))
		}
	}
	be32 := func(v uint32) []byte { b := make([]byte, 4); binary.BigEndian.PutUint32(b, v); return b }
	be16 := func(v uint16) []byte { b := make([]byte, 2); binary.BigEndian.PutUint16(b, v); return b }
	kind := s.Weighted([]int{6, 6, 4, 3, 6, 5, 5, 3, 3, 4, 3, 3, 3, 2, 4, 3, 7}, "corruption")
	switch kind {
	case 16: // crafted: an acyclic tower of interior pages, every child pointer of a level leading to the next
		// No page is its own ancestor and the depth stays below any recursion limit, but a
		// traversal that does not notice shared pages does fanout^levels work on a file of a
		// few kilobytes.
		for try := 0; try < 12; try++ {
			p := pickPage()
			if p.No == 1 || (p.Type != 0x05 && p.Type != 0x02) || p.RightOff < 0 {
				continue
			}
			var offs []int
			for _, c := range p.Cells {
				if c.LeftOff >= 0 {
					offs = append(offs, c.LeftOff)
				}
			}
			offs = append(offs, p.RightOff)
			f := len(offs)
			if f < 2 {
				continue
			}
			levels, work := 1, f
			for work < 3000000 && levels < 22 {
				work *= f
				levels++
			}
			src := p.No
			// half of the towers end in one shared EMPTY leaf: nothing is ever found there, so
			// point lookups wander through every branch too (a found row would stop them)
			emptyLeaf := s.Chance(1, 2, "tower-ends-in-empty-leaf")
			leafType := byte(0x0d)
			if p.Type == 0x02 {
				leafType = 0x0a
			}
			ending := "the original children"
			if emptyLeaf {
				ending = "one shared empty leaf"
			}
			return corruption{"dag-tower", fmt.Sprintf("interior page %d (fan-out %d): %d copies appended, every child pointer of a level leads to the next level, the last level to %s", src, f, levels, ending), func(im []byte) []byte {
				if src*u > len(im) {
					return im
				}
				n0 := len(im) / u
				out := append([]byte(nil), im[:n0*u]...)
				orig := append([]byte(nil), im[(src-1)*u:src*u]...)
				for i := 1; i <= levels; i++ {
					cp := append([]byte(nil), orig...)
					if i < levels || emptyLeaf {
						for _, o := range offs {
							copy(cp[o:], be32(uint32(n0+i+1)))
						}
					}
					out = append(out, cp...)
				}
				extra := 0
				if emptyLeaf {
					leaf := make([]byte, u)
					leaf[0] = leafType
					binary.BigEndian.PutUint16(leaf[5:7], uint16(u%65536)) // cell content area starts at the end of the page
					out = append(out, leaf...)
					extra = 1
				}
				for _, o := range offs {
					copy(out[(src-1)*u+o:], be32(uint32(n0+1)))
				}
				// in-header database size, so that the new pages are inside the file for everybody
				if len(out) >= 100 {
					binary.BigEndian.PutUint32(out[28:32], uint32(n0+levels+extra))
				}
				return out
			}}
		}
	case 0: // child pointer
		for try := 0; try < 8; try++ {
			p := pickPage()
			var offs []int
			if p.RightOff >= 0 {
				offs = append(offs, p.RightOff)
			}
			for _, c := range p.Cells {
				if c.LeftOff >= 0 {
					offs = append(offs, c.LeftOff)
				}
			}
			if len(offs) == 0 {
				continue
			}
			off := offs[s.Draw(len(offs), "which")]
			v := pagePtrValue(p.No)
			abs := (p.No-1)*u + off
			return corruption{"child-pointer", fmt.Sprintf("page %d: child pointer at +%d := %d", p.No, off, v), func(im []byte) []byte { return writeAt(im, abs, be32(v)) }}
		}
	case 1: // overflow pointer (first page of chain or next pointer inside a chain)
		for try := 0; try < 12; try++ {
			p := pickPage()
			var cs []pagewalk.Cell
			for _, c := range p.Cells {
				if c.OvflOff >= 0 {
					cs = append(cs, c)
				}
			}
			if len(cs) == 0 {
				continue
			}
			c := cs[s.Draw(len(cs), "cell")]
			if s.Chance(1, 2, "inchain") && c.Ovfl >= 1 && c.Ovfl <= npages {
				// the next-pointer of the first overflow page
				v := pagePtrValue(c.Ovfl)
				abs := (c.Ovfl - 1) * u
				return corruption{"overflow-pointer", fmt.Sprintf("overflow page %d: next := %d", c.Ovfl, v), func(im []byte) []byte { return writeAt(im, abs, be32(v)) }}
			}
			v := pagePtrValue(p.No)
			abs := (p.No-1)*u + c.OvflOff
			return corruption{"overflow-pointer", fmt.Sprintf("page %d cell@%d: first overflow page := %d", p.No, c.Off, v), func(im []byte) []byte { return writeAt(im, abs, be32(v)) }}
		}
	case 2: // cell pointer array entry
		p := pickPage()
		if p.NCells > 0 {
			i := s.Draw(p.NCells, "cellidx")
			vals := []uint16{0, 1, uint16(u - 1), uint16(u - 2), uint16(u - 4), uint16(u), 0xffff, uint16(p.PtrArrOff), uint16(s.Draw(u, "cellptr"))}
			v := vals[s.Draw(len(vals), "cellptrv")]
			abs := (p.No-1)*u + p.PtrArrOff + 2*i
			return corruption{"cell-pointer", fmt.Sprintf("page %d: cell pointer %d := %d", p.No, i, v), func(im []byte) []byte { return writeAt(im, abs, be16(v)) }}
		}
	case 3: // cell count
		p := pickPage()
		vals := []uint16{0xffff, uint16(p.NCells + 1), uint16(p.NCells * 2), uint16(u / 2), uint16(u), 0x8000, 0}
		v := vals[s.Draw(len(vals), "ncells")]
		abs := (p.No-1)*u + p.HdrOff + 3
		return corruption{"cell-count", fmt.Sprintf("page %d: cell count %d := %d", p.No, p.NCells, v), func(im []byte) []byte { return writeAt(im, abs, be16(v)) }}
	case 4: // payload length varint
		for try := 0; try < 8; try++ {
			p := pickPage()
			var cs []pagewalk.Cell
			for _, c := range p.Cells {
				if c.LenOff >= 0 {
					cs = append(cs, c)
				}
			}
			if len(cs) == 0 {
				continue
			}
			c := cs[s.Draw(len(cs), "cell")]
			v := hostileVarints[s.Draw(len(hostileVarints), "varint")]
			abs := (p.No-1)*u + c.LenOff
			return corruption{"payload-length", fmt.Sprintf("page %d cell@%d: payload length %d := varint %x", p.No, c.Off, c.PayloadLen, v), func(im []byte) []byte { return writeAt(im, abs, v) }}
		}
	case 5: // record header length
		for try := 0; try < 8; try++ {
			p := pickPage()
			var cs []pagewalk.Cell
			for _, c := range p.Cells {
				if c.HdrLenOff >= 0 {
					cs = append(cs, c)
				}
			}
			if len(cs) == 0 {
				continue
			}
			c := cs[s.Draw(len(cs), "cell")]
			v := hostileVarints[s.Draw(len(hostileVarints), "varint")]
			abs := (p.No-1)*u + c.HdrLenOff
			return corruption{"header-length", fmt.Sprintf("page %d cell@%d: record header length := varint %x", p.No, c.Off, v), func(im []byte) []byte { return writeAt(im, abs, v) }}
		}
	case 6: // serial type
		for try := 0; try < 8; try++ {
			p := pickPage()
			var offs, ends []int
			for _, c := range p.Cells {
				for _, o := range c.SerialOffs {
					offs = append(offs, o)
					ends = append(ends, c.HdrEnd)
				}
			}
			if len(offs) == 0 {
				continue
			}
			v := hostileVarints[s.Draw(len(hostileVarints), "varint")]
			k := s.Draw(len(offs), "serial")
			off := offs[k]
			if off+len(v) > ends[k] && try < 6 {
				// prefer a place where the whole varint stays inside the record header
				continue
			}
			abs := (p.No-1)*u + off
			return corruption{"serial-type", fmt.Sprintf("page %d: serial type at +%d := varint %x", p.No, off, v), func(im []byte) []byte { return writeAt(im, abs, v) }}
		}
	case 7: // page type byte
		p := pickPage()
		v := []byte{0x0d, 0x05, 0x0a, 0x02, 0x00, 0xff, 0x01}[s.Draw(7, "ptype")]
		abs := (p.No-1)*u + p.HdrOff
		return corruption{"page-type", fmt.Sprintf("page %d: type %#x := %#x", p.No, p.Type, v), func(im []byte) []byte { return writeAt(im, abs, []byte{v}) }}
	case 8: // file header byte
		off := s.Draw(100, "hdroff")
		v := byte(s.Draw(256, "hdrval"))
		return corruption{"file-header", fmt.Sprintf("header byte %d := %d", off, v), func(im []byte) []byte { return writeAt(im, off, []byte{v}) }}
	case 9: // truncation
		var n int
		switch s.Draw(4, "trunckind") {
		case 0:
			n = u * s.Draw(npages+1, "truncpages")
		case 1:
			n = s.Draw(len(img)+1, "truncbytes")
		case 2:
			n = s.Draw(101, "trunchdr")
		default:
			n = u*s.Draw(npages+1, "truncpages") + 1 + s.Draw(u-1, "truncextra")
		}
		if n > len(img) {
			n = len(img)
		}
		return corruption{"truncate", fmt.Sprintf("file truncated to %d bytes (of %d)", n, len(img)), func(im []byte) []byte {
			if n > len(im) {
				return im
			}
			return append([]byte(nil), im[:n]...)
		}}
	case 10: // zero / garbage page
		no := 1 + s.Draw(npages, "zpage")
		garbage := s.Chance(1, 2, "garbage")
		seed := uint32(s.Draw(1<<16, "gseed"))
		return corruption{"page-replaced", fmt.Sprintf("page %d replaced (garbage=%v)", no, garbage), func(im []byte) []byte {
			out := append([]byte(nil), im...)
			x := seed
			for i := (no - 1) * u; i < no*u && i < len(out); i++ {
				if garbage {
					x = x*1664525 + 1013904223
					out[i] = byte(x >> 24)
				} else {
					out[i] = 0
				}
			}
			return out
		}}
	case 11: // misdirected write: page i holds the bytes of page j
		i, j := 1+s.Draw(npages, "mis-i"), 1+s.Draw(npages, "mis-j")
		return corruption{"misdirect", fmt.Sprintf("page %d holds the bytes of page %d", i, j), func(im []byte) []byte {
			out := append([]byte(nil), im...)
			if i*u <= len(out) && j*u <= len(im) {
				copy(out[(i-1)*u:i*u], im[(j-1)*u:j*u])
			}
			return out
		}}
	case 12: // stale page (lost write): page from an older committed version
		if len(prev) >= u {
			pn := len(prev) / u
			no := 1 + s.Draw(min(pn, npages), "stale")
			return corruption{"stale-page", fmt.Sprintf("page %d served from an older committed version", no), func(im []byte) []byte {
				out := append([]byte(nil), im...)
				if no*u <= len(out) && no*u <= len(prev) {
					copy(out[(no-1)*u:no*u], prev[(no-1)*u:no*u])
				}
				return out
			}}
		}
	case 15: // crafted cell: oversized declared payload on a cyclic overflow chain (two cooperating fields)
		var leaves []*pagewalk.Page
		for _, p := range valid {
			if p.Type == 0x0d && p.No != 1 && len(p.Cells) > 0 {
				leaves = append(leaves, p)
			}
		}
		if len(leaves) > 0 && npages >= 4 {
			p := leaves[s.Draw(len(leaves), "leaf")]
			// a cycle of 2..3 other pages
			cyc := []int{}
			for len(cyc) < 2+s.Draw(2, "cyclen") {
				q := 2 + s.Draw(npages-1, "cycpage")
				dup := q == p.No
				for _, x := range cyc {
					if x == q {
						dup = true
					}
				}
				if !dup {
					cyc = append(cyc, q)
				}
				if len(cyc) == 0 && npages < 4 {
					break
				}
			}
			length := []int64{1 << 20, 1 << 28, 1 << 31, 1 << 40, 1 << 62}[s.Draw(5, "claimed")]
			return corruption{"crafted-overflow-cycle", fmt.Sprintf("page %d rewritten as a table leaf with one cell claiming %d payload bytes whose overflow chain cycles through pages %v", p.No, length, cyc), func(im []byte) []byte {
				out := append([]byte(nil), im...)
				base := (p.No - 1) * u
				if base+u > len(out) {
					return out
				}
				pg := out[base : base+u]
				for i := range pg {
					pg[i] = 0
				}
				// local part per the file format's rule
				x := int64(u - 35)
				m := int64((u-12)*32/255 - 23)
				local := m + (length-m)%int64(u-4)
				if local > x {
					local = m
				}
				var lv []byte
				{ // varint of length
					v := uint64(length)
					var tmp [10]byte
					n := 0
					if v >= 1<<56 {
						// 9-byte form
						lv = []byte{byte(v>>57) | 0x80, byte(v>>50) | 0x80, byte(v>>43) | 0x80, byte(v>>36) | 0x80, byte(v>>29) | 0x80, byte(v>>22) | 0x80, byte(v>>15) | 0x80, byte(v>>8) | 0x80, byte(v)}
					} else {
						for {
							tmp[n] = byte(v & 0x7f)
							n++
							v >>= 7
							if v == 0 {
								break
							}
						}
						for i := n - 1; i >= 0; i-- {
							b := tmp[i]
							if i > 0 {
								b |= 0x80
							}
							lv = append(lv, b)
						}
					}
				}
				cell := append(append([]byte{}, lv...), 0x01) // rowid 1
				payload := make([]byte, local)
				if local >= 2 {
					payload[0], payload[1] = 0x02, 0x0c // record: header size 2, one zero-length blob... the rest is body
				}
				cell = append(cell, payload...)
				cell = append(cell, be32(uint32(cyc[0]))...)
				off := u - len(cell)
				if off < 16 {
					return out
				}
				copy(pg[off:], cell)
				pg[0] = 0x0d
				binary.BigEndian.PutUint16(pg[3:5], 1)
				binary.BigEndian.PutUint16(pg[5:7], uint16(off))
				binary.BigEndian.PutUint16(pg[8:10], uint16(off))
				for i, q := range cyc {
					nx := cyc[(i+1)%len(cyc)]
					if (q-1)*u+4 <= len(out) {
						copy(out[(q-1)*u:], be32(uint32(nx)))
					}
				}
				return out
			}}
		}
	case 13: // rowid / key varint in interior or leaf table cells
		for try := 0; try < 8; try++ {
			p := pickPage()
			var cs []pagewalk.Cell
			for _, c := range p.Cells {
				if c.RowidOff >= 0 {
					cs = append(cs, c)
				}
			}
			if len(cs) == 0 {
				continue
			}
			c := cs[s.Draw(len(cs), "cell")]
			v := hostileVarints[s.Draw(len(hostileVarints), "varint")]
			abs := (p.No-1)*u + c.RowidOff
			return corruption{"rowid-varint", fmt.Sprintf("page %d cell@%d: rowid varint := %x", p.No, c.Off, v), func(im []byte) []byte { return writeAt(im, abs, v) }}
		}
	}
	return blind(s, img)
}

func blind(s *sim.Src, img []byte) corruption {
	if len(img) == 0 {
		return corruption{"blind", "empty image", func(im []byte) []byte { return im }}
	}
	off := s.Draw(len(img), "off")
	if s.Chance(1, 3, "nearstart") {
		off = s.Draw(min(len(img), 2048), "off2")
	}
	if s.Chance(1, 2, "bit") {
		bit := byte(1) << s.Draw(8, "bit")
		return corruption{"blind", fmt.Sprintf("bit flip at byte %d mask %#x", off, bit), func(im []byte) []byte {
			if off >= len(im) {
				return im
			}
			return writeAt(im, off, []byte{im[off] ^ bit})
		}}
	}
	v := byte(s.Draw(256, "byte"))
	return corruption{"blind", fmt.Sprintf("byte %d := %#x", off, v), func(im []byte) []byte { return writeAt(im, off, []byte{v}) }}
}

package props

import (
	"regexp"
	"encoding/binary"
	"fmt"
	"os"
	"path/filepath"

	"verif/ops"
	"verif/pg"
	"verif/sim"
	"verif/sq"
	"verif/world"
)

// C15 — unsupported or invalid database headers are refused, valid ones accepted.
// (a) E-PAGE enumeration: every header byte x every value on a base image of each
// page size, applied at open and — on a warm long-lived handle — between two
// transactions. (b) E-WORLD: real WAL / UTF-16 databases written by SQLite,
// also swapped in under an open handle.

const (
	hdrReject = iota
	hdrAccept
	hdrDontCare
)

var c15PageSizes = []int{512, 1024, 2048, 4096, 8192, 16384, 32768, 65536}

// classify the header after setting byte off to v (base is a valid header).
// set per run (workers execute runs one after the other)
var c15ImageHasDesc bool
var reDesc = regexp.MustCompile(`(?i)\bDESC\b`)

func classifyHeader(base []byte, off int, v byte) (class int, why string) {
	h := append([]byte(nil), base[:100]...)
	if h[off] == v {
		return hdrAccept, "unchanged"
	}
	h[off] = v
	switch {
	case off < 16:
		return hdrReject, "magic"
	case off < 18:
		ps := int(binary.BigEndian.Uint16(h[16:18]))
		if ps == 1 {
			ps = 65536
		}
		if ps < 512 || ps&(ps-1) != 0 {
			return hdrReject, "invalid page size"
		}
		return hdrDontCare, "valid but wrong page size"
	case off == 18:
		return hdrDontCare, "write version"
	case off == 19:
		if v == 2 {
			return hdrReject, "read version 2 (WAL)"
		}
		return hdrReject, "unknown read version"
	case off == 20:
		return hdrReject, "reserved space"
	case off < 24:
		return hdrDontCare, "payload fractions"
	case off < 44:
		return hdrAccept, "counters / size / free-list / schema cookie"
	case off < 48:
		f := binary.BigEndian.Uint32(h[44:48])
		switch {
		case f >= 2 && f <= 4:
			if f < 4 && c15ImageHasDesc {
				// in formats 2 and 3 SQLite ignores DESC in index definitions: a format-4
				// image with a descending index, relabelled, is not a file SQLite reads the
				// same way either
				return hdrDontCare, "schema format 2/3 on an image with DESC indexes"
			}
			return hdrAccept, "schema format 2..4"
		case f <= 1:
			return hdrDontCare, "schema format 0/1"
		}
		return hdrReject, "unknown schema format"
	case off < 56:
		return hdrAccept, "default cache size / largest root page"
	case off < 60:
		e := binary.BigEndian.Uint32(h[56:60])
		switch e {
		case 1:
			return hdrAccept, "utf-8"
		case 0:
			return hdrDontCare, "encoding 0"
		case 2, 3:
			return hdrReject, "utf-16"
		}
		return hdrReject, "unknown encoding"
	case off < 72:
		return hdrAccept, "user version / incremental vacuum / application id"
	case off < 92:
		return hdrDontCare, "reserved for expansion"
	}
	return hdrAccept, "version-valid-for / sqlite version"
}

type c15Result struct {
	errs  int
	calls int
	hash  string
	n     int
}

// c15Ops runs the read family on a handle; returns (#errors, #callback rows, content hash).
func c15Ops(d interface{}, run func(op ops.Op) ops.Result, tables []*sq.Table) (res c15Result, panicked interface{}) {
	var all [][]sq.Val
	list := []ops.Op{{Kind: "tables", Lock: true}}
	for _, t := range tables {
		list = append(list, ops.Op{Kind: "select", Table: t.Name, Cols: t.ColNames()}, ops.Op{Kind: "columns", Table: t.Name})
		if !t.WithoutRowid {
			list = append(list, ops.Op{Kind: "rowid", Table: t.Name, Rowid: 1, Cols: t.ColNames()}, ops.Op{Kind: "tscan", Table: t.Name, Lock: true})
		}
		for _, ix := range t.Indexes {
			if !(t.WithoutRowid && ix.Origin == "pk") {
				list = append(list, ops.Op{Kind: "ixselect", Table: t.Name, Index: ix.Name, Cols: t.ColNames()})
				break
			}
		}
	}
	for _, op := range list {
		r := run(op)
		res.n++
		if r.Panic != nil {
			return res, r.Panic
		}
		if r.Err != nil {
			res.errs++
		}
		res.calls += r.Calls + len(r.Rows)
		all = append(all, r.Rows...)
		for _, s := range r.Strs {
			all = append(all, []sq.Val{s})
		}
	}
	res.hash = hashVals(all)
	return res, nil
}

func runC15Enum(c *sim.Ctx, u int, chunk int) {
	s := c.Src
	prof := world.Profile{PageSizes: []int{u}, MaxTables: 2, RowsLo: 3, RowsHi: 25, Fancy: 0, WithoutRow: 3, IndexesHi: 1, JournalMode: []string{"DELETE"}}
	img, snap, _ := buildImage(c, prof, s.Draw(2, "steps"))
	var tables []*sq.Table
	for _, t := range snap.Tables {
		if t.HasRows {
			tables = append(tables, t)
		}
	}
	c15ImageHasDesc = false
	for _, m := range snap.Master {
		if m.SQL != nil && reDesc.MatchString(*m.SQL) {
			c15ImageHasDesc = true
		}
	}
	// base behaviour
	m0 := &pg.Mem{Image: img}
	d0, err := ops.OpenPager(m0, "")
	if err != nil {
		c.Troublef("base image rejected: %v", err)
	}
	base, p := c15Ops(d0, func(op ops.Op) ops.Result { return ops.Run(d0, op, nil) }, tables)
	if p != nil {
		c.Troublef("base image panics: %v", p)
	}
	if base.errs == base.n {
		c.Troublef("base image does not read at all")
	}
	c.Log.Add("sim", "base", "u=%d bytes=%d tables=%d ops=%d hash=%s chunk=%d", u, len(img), len(tables), base.n, base.hash, chunk)
	c.Sample = map[string]interface{}{"page_size": u, "header_bytes": fmt.Sprintf("%d..%d", chunk*10, chunk*10+9), "values": "0..255", "tables": len(tables)}
	c.Nontrivial = len(tables) > 0
	counts := [3]int{}
	for off := chunk * 10; off < chunk*10+10; off++ {
		for v := 0; v < 256; v++ {
			class, why := classifyHeader(img, off, byte(v))
			counts[class]++
			mut := append([]byte(nil), img...)
			mut[off] = byte(v)
			moments := []string{"at-open", "between-transactions"}
			if class == hdrReject || (off+v)%8 == 0 {
				// the handle is open but has not read anything yet when the header changes
				// (every must-reject value, a sample of the others)
				moments = append(moments, "before-first-read")
			}
			for _, when := range moments {
				m := &pg.Mem{Image: img}
				if when == "at-open" {
					m.Image = mut
				}
				d, err := ops.OpenPager(m, "")
				c.Eval(1)
				detail := map[string]interface{}{"page_size": u, "offset": off, "value": v, "field": why, "when": when, "base_value": img[off]}
				if when == "between-transactions" {
					if err != nil {
						c.Troublef("base image rejected on reopen")
					}
					// warm the caches with one full transaction set, then the header changes
					if w1, p := c15Ops(d, func(op ops.Op) ops.Result { return ops.Run(d, op, nil) }, tables); p != nil || w1.hash != base.hash {
						c.Troublef("warm-up differs from base")
					}
					m.Image = mut
					c.Fault("header-rewrite-between-transactions")
				} else if when == "before-first-read" {
					if err != nil {
						c.Troublef("base image rejected on reopen")
					}
					m.Image = mut
					c.Fault("header-rewrite-before-first-read")
				} else {
					c.Fault("header-byte-at-open")
					if err != nil {
						if class == hdrAccept {
							c.Fail("valid-header-refused", fmt.Sprintf("refused:%s", why), fmt.Sprintf("page size %d: header byte %d := %d (%s) does not affect reading, but open failed: %v", u, off, v, why, err), detail)
						}
						continue
					}
				}
				r, p := c15Ops(d, func(op ops.Op) ops.Result { return ops.Run(d, op, nil) }, tables)
				if p != nil {
					c.Fail("panic", "panic", fmt.Sprintf("page size %d: header byte %d := %d (%s, %s): panic %v", u, off, v, why, when, p), detail)
					continue
				}
				if class == hdrReject && when != "at-open" {
					// several accesses inside ONE read transaction (explicit RLock ... RUnlock):
					// the refusal must hold for every one of them, not only for the first
					low := d.VerifLow()
					if err := low.RLock(); err == nil {
						okAfterRefusal := 0
						var seq []string
						for i := 0; i < 3; i++ {
							op := ops.Op{Kind: "tables"}
							if i > 0 && len(tables) > 0 && !tables[0].WithoutRowid {
								op = ops.Op{Kind: "tscan", Table: tables[0].Name}
							}
							rr := ops.Run(d, op, nil)
							seq = append(seq, fmt.Sprintf("%s:%v", op.Kind, rr.Err))
							if rr.Panic == nil && rr.Err == nil {
								okAfterRefusal++
							}
						}
						low.RUnlock()
						c.Eval(1)
						if okAfterRefusal > 0 {
							c.Fail("invalid-header-read", fmt.Sprintf("accepted:%s:%s:later-access-under-one-lock", why, when), fmt.Sprintf("page size %d: header byte %d := %d (%s) must be refused, but inside one RLock..RUnlock bracket %s: %v", u, off, v, why, when, seq), detail)
						}
						c.Probe("refusal-repeated-under-one-lock")
					}
				}
				switch class {
				case hdrReject:
					if r.errs != r.n || r.calls != 0 {
						c.Fail("invalid-header-read", fmt.Sprintf("accepted:%s:%s", why, when), fmt.Sprintf("page size %d: header byte %d := %d (%s) must be refused, but %s %d of %d operations succeeded and delivered %d rows/names", u, off, v, why, when, r.n-r.errs, r.n, r.calls), detail)
					}
				case hdrAccept:
					if r.errs != base.errs || r.hash != base.hash {
						c.Fail("valid-header-refused", fmt.Sprintf("refused:%s:%s", why, when), fmt.Sprintf("page size %d: header byte %d := %d (%s) does not affect reading, but %s %d of %d operations failed / results differ", u, off, v, why, when, r.errs, r.n), detail)
					}
				}
			}
		}
	}
	c.Inc("class_reject", int64(counts[hdrReject]))
	c.Inc("class_accept", int64(counts[hdrAccept]))
	c.Inc("class_dontcare", int64(counts[hdrDontCare]))
	c.State(u, chunk)
}

// runC15Real: WAL / UTF-16 databases written by real SQLite.
func runC15Real(c *sim.Ctx) {
	s := c.Src
	e := env(c)
	dir, cleanup := e.RunDir()
	defer cleanup()
	path := filepath.Join(dir, "db")
	kind := []string{"wal", "utf16le", "utf16be", "wal-under-open-handle", "utf16-under-open-handle"}[s.Draw(5, "realkind")]
	u := c15PageSizes[s.Draw(len(c15PageSizes), "pagesize")]
	c.Log.Add("sim", "real", "%s u=%d", kind, u)
	c.Sample = map[string]interface{}{"kind": kind, "page_size": u}
	c.Nontrivial = true
	W := e.W
	exec := func(id, sql string) {
		r, err := W.Exec(id, sql)
		if err != nil || !r.OK {
			c.Troublef("writer: %s: %v %v", sql, err, r)
		}
		c.Log.Add("W", "sql", "%s", sql)
	}
	mustReject := func(label string, d func() (ops.Result, error)) {
		r, err := d()
		c.Eval(1)
		if err == nil && (r.Err == nil || r.Calls > 0) {
			c.Fail("unsupported-database-read", "real:"+kind+":"+label, fmt.Sprintf("%s database (%s): read succeeded: err=%v rows=%d", kind, label, r.Err, len(r.Rows)), nil)
		}
	}
	fill := func(id string) {
		exec(id, "CREATE TABLE t (a INTEGER PRIMARY KEY, b TEXT)")
		exec(id, "INSERT INTO t VALUES (1,'one'),(2,'two'),(3,'three')")
	}
	switch kind {
	case "wal":
		W.Open("x", path, fmt.Sprintf("PRAGMA page_size=%d", u))
		defer W.CloseConn("x")
		fill("x")
		exec("x", "PRAGMA journal_mode=WAL")
		exec("x", "INSERT INTO t VALUES (4,'unmerged wal content')")
		mustReject("open+select", func() (ops.Result, error) {
			d, err := sqlittleOpen(path)
			if err != nil {
				return ops.Result{}, err
			}
			defer d.Close()
			return ops.Run(d, ops.Op{Kind: "select", Table: "t", Cols: []string{"a", "b"}}, nil), nil
		})
		c.Probe("real-wal")
	case "utf16le", "utf16be":
		W.Open("x", path, fmt.Sprintf("PRAGMA page_size=%d", u), "PRAGMA encoding='"+map[string]string{"utf16le": "UTF-16le", "utf16be": "UTF-16be"}[kind]+"'")
		defer W.CloseConn("x")
		fill("x")
		mustReject("open+select", func() (ops.Result, error) {
			d, err := sqlittleOpen(path)
			if err != nil {
				return ops.Result{}, err
			}
			defer d.Close()
			return ops.Run(d, ops.Op{Kind: "select", Table: "t", Cols: []string{"a", "b"}}, nil), nil
		})
		c.Probe("real-utf16")
	case "wal-under-open-handle":
		W.Open("x", path, fmt.Sprintf("PRAGMA page_size=%d", u))
		defer W.CloseConn("x")
		fill("x")
		d, err := sqlittleOpen(path)
		if err != nil {
			c.Fail("open-failed", "open-error", fmt.Sprintf("open: %v", err), nil)
			return
		}
		defer d.Close()
		r := ops.Run(d, ops.Op{Kind: "select", Table: "t", Cols: []string{"a", "b"}}, nil)
		if r.Err != nil || len(r.Rows) != 3 {
			c.Fail("valid-database-refused", "real:rollback-db-refused", fmt.Sprintf("plain database: %v rows=%d", r.Err, len(r.Rows)), nil)
		}
		exec("x", "PRAGMA journal_mode=WAL")
		exec("x", "INSERT INTO t VALUES (4,'unmerged wal content')")
		mustReject("long-lived handle after switch", func() (ops.Result, error) {
			return ops.Run(d, ops.Op{Kind: "select", Table: "t", Cols: []string{"a", "b"}}, nil), nil
		})
		mustReject("rowid lookup after switch", func() (ops.Result, error) {
			r := ops.Run(d, ops.Op{Kind: "rowid", Table: "t", Rowid: 1, Cols: []string{"b"}}, nil)
			r.Calls = len(r.Rows)
			return r, nil
		})
		c.Probe("real-wal-under-handle")
	case "utf16-under-open-handle":
		p16 := filepath.Join(dir, "db16")
		W.Open("y", p16, fmt.Sprintf("PRAGMA page_size=%d", u), "PRAGMA encoding='UTF-16le'")
		fill("y")
		W.CloseConn("y")
		W.Open("x", path, fmt.Sprintf("PRAGMA page_size=%d", u))
		fill("x")
		W.CloseConn("x")
		d, err := sqlittleOpen(path)
		if err != nil {
			c.Fail("open-failed", "open-error", fmt.Sprintf("open: %v", err), nil)
			return
		}
		defer d.Close()
		r := ops.Run(d, ops.Op{Kind: "select", Table: "t", Cols: []string{"a", "b"}}, nil)
		if r.Err != nil || len(r.Rows) != 3 {
			c.Fail("valid-database-refused", "real:rollback-db-refused", fmt.Sprintf("plain database: %v rows=%d", r.Err, len(r.Rows)), nil)
		}
		// the file is rebuilt in place (same inode) as UTF-16
		b, _ := os.ReadFile(p16)
		f, err := os.OpenFile(path, os.O_WRONLY, 0)
		if err != nil {
			c.Troublef("rewrite: %v", err)
		}
		f.WriteAt(b, 0)
		f.Truncate(int64(len(b)))
		f.Close()
		mustReject("long-lived handle after rebuild", func() (ops.Result, error) {
			return ops.Run(d, ops.Op{Kind: "select", Table: "t", Cols: []string{"a", "b"}}, nil), nil
		})
		c.Probe("real-utf16-under-handle")
	}
}

func runC15(c *sim.Ctx) {
	// runs 0..79: full enumeration (8 page sizes x 10 chunks of 10 header bytes);
	// the 65536 page size appears as the header value 1. Beyond: more base images
	// and the real WAL / UTF-16 scenarios.
	n := len(c15PageSizes) * 10
	k := c.Idx % (n + 16)
	if k < n {
		runC15Enum(c, c15PageSizes[k%len(c15PageSizes)], k/len(c15PageSizes))
		return
	}
	runC15Real(c)
}

func init() {
	sim.Register(&sim.Prop{
		ID: "C15", Engine: "E-PAGE", Level: "fault_enumeration", Fn: runC15, NewEnv: NewEnv,
		Runs: map[string]int{"quick": 96, "thorough": 960},
		Rule: "runs 0..79 (mod 96) enumerate COMPLETELY, for a base image of each of the eight page-size encodings SQLite can write (512..32768 and 65536 stored as 1), every header byte 0..99 x every value 0..255, applied (i) at open, (ii) on a long-lived handle with warm page/schema caches between two transactions and (iii, every must-reject value and one in eight of the others) on a handle that is open but has not read yet; expected class per (field, value): must-reject (every operation errors, no callback), must-accept (results identical to the base image) or don't-care (payload fractions, reserved bytes, schema format 0/1, encoding 0, write version, a valid but wrong page size); the other runs use real WAL databases with un-checkpointed content and UTF-16le/be databases written by SQLite, also switched/rebuilt under an open handle; the thorough tier repeats with ten base images per page size; evaluations = (image, moment) pairs; distinct = distinct event logs",
		Real: append([]string{"header parsing and every read entry point on the simulated disk; real file pager for the WAL/UTF-16 scenarios"}, realAll...),
		Stub: []string{"file pager replaced by pg.Mem for the enumeration"},
		Assumptions: []string{"schema formats 1..3 cannot be written by SQLite 3.40.1 (legacy_file_format is a no-op): reached by relabelling the format field", "the classification of header fields is the property's own; don't-care fields are listed in the rule"},
		Exhaustive: true,
		MaxRunSecs: 600,
		Vacuity: func(st map[string]int64, runs int, tier string) error {
			for _, p := range []string{"real-wal", "real-utf16", "real-wal-under-handle", "real-utf16-under-handle"} {
				if st["probe."+p] == 0 {
					return fmt.Errorf("reach probe %q is zero", p)
				}
			}
			if st["class_reject"] == 0 || st["class_accept"] == 0 {
				return fmt.Errorf("classes not reached")
			}
			return nil
		},
	})
}

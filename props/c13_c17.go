package props

import (
	"verif/fold"
	"fmt"
	"os"
	"strings"

	"github.com/alicebob/sqlittle"
	sdb "github.com/alicebob/sqlittle/db"

	"verif/ops"
	"verif/pagewalk"
	"verif/refcmp"
	"verif/sim"
	"verif/sq"
	"verif/world"
)

// ---------------------------------------------------------------- C13
// Low-level range scans agree with the full scan and the comparison order.

type lowIndex struct {
	table *sq.Table
	ix    *sq.Index // xinfo gives the flags of every column of the stored records
	op    ops.Op    // how to scan it (Index name, or Table for WITHOUT ROWID tables)
	root  int
}

func lowIndexes(w *world.World) []lowIndex {
	var out []lowIndex
	roots := map[string]int{}
	for _, m := range w.Snap.Master {
		roots[m.Type+"/"+fold.Lower(m.Name)] = m.Rootpage
	}
	for _, t := range w.Snap.Tables {
		for _, ix := range t.Indexes {
			if t.WithoutRowid && ix.Origin == "pk" {
				out = append(out, lowIndex{t, ix, ops.Op{Table: t.Name, Lock: true}, roots["table/"+fold.Lower(t.Name)]})
			} else {
				out = append(out, lowIndex{t, ix, ops.Op{Index: ix.Name, Lock: true}, roots["index/"+fold.Lower(ix.Name)]})
			}
		}
	}
	return out
}

func dbKey(vals []sq.Val, cols []refcmp.Col) sdb.Key {
	k := make(sdb.Key, len(vals))
	for i, v := range vals {
		var c refcmp.Col
		if i < len(cols) {
			c = cols[i]
		}
		k[i] = sdb.KeyCol{V: v, Desc: c.Desc, Collate: lowerColl(c.Coll)}
	}
	return k
}

func c13Index(c *sim.Ctx, d *sqlittle.DB, li lowIndex, budget int) {
	s := c.Src
	cols := ixCols(li.ix)
	op := li.op
	op.Kind = "iscan"
	full := ops.Run(d, op, nil)
	c.Eval(1)
	if full.Panic != nil {
		c.Fail("panic", "panic:iscan", fmt.Sprintf("%s panicked: %v", op.String(), full.Panic), nil)
		return
	}
	if full.Err != nil {
		c.Inc("index_scan_errors", 1) // not this property's subject (C02)
		return
	}
	recs := full.Rows
	// the full scan must be in the order the index is declared to be stored in;
	// otherwise "first entry not less than the key" has no meaning (that is C02's business)
	for i := 1; i < len(recs); i++ {
		if refcmp.CompareKey(toIface(recs[i-1]), toIface(recs[i][:min(len(recs[i]), len(cols))]), cols) > 0 {
			c.Inc("full_scan_not_in_reference_order", 1)
			return
		}
	}
	if li.ix.HasEntries && len(recs) != len(li.ix.Entries) {
		c.Inc("full_scan_count_differs", 1)
		return
	}
	// keys at cut points
	var keys [][]sq.Val
	n := len(recs)
	ncol := len(cols)
	addFrom := func(rec []sq.Val) {
		for m := 0; m <= len(rec) && m <= ncol; m++ {
			k := append([]sq.Val{}, rec[:m]...)
			keys = append(keys, k)
			if m > 0 {
				nb := neighbours(s, k[m-1])
				k2 := append([]sq.Val{}, k...)
				k2[m-1] = nb[s.Draw(len(nb), "nb")]
				keys = append(keys, k2)
			}
		}
		// longer than the stored record
		keys = append(keys, append(append([]sq.Val{}, rec...), int64(1)))
	}
	if n <= 200 {
		for _, r := range recs {
			addFrom(r)
		}
	} else {
		for i := 0; i < 120; i++ {
			addFrom(recs[s.Draw(n, "rec")])
		}
		addFrom(recs[0])
		addFrom(recs[n-1])
	}
	keys = append(keys, []sq.Val{}, []sq.Val{nil}, []sq.Val{[]byte{0xff, 0xff, 0xff}}, []sq.Val{int64(-1 << 63)}, []sq.Val{"zzzzzz"})
	if len(keys) > budget {
		// deterministic thinning
		step := len(keys)/budget + 1
		var kk [][]sq.Val
		for i := 0; i < len(keys); i += step {
			kk = append(kk, keys[i+s.Draw(min(step, len(keys)-i), "thin")])
		}
		keys = kk
	}
	cmpRec := func(rec []sq.Val, key []sq.Val) int {
		return refcmp.CompareKey(toIface(rec), toIface(key), cols)
	}
	check := func(kind string, op ops.Op, want [][]sq.Val) {
		r := ops.Run(d, op, nil)
		c.Eval(1)
		detail := map[string]interface{}{"op": op.String(), "entries": n}
		if r.Panic != nil {
			c.Fail("panic", "panic:"+kind, fmt.Sprintf("%s panicked: %v", op.String(), r.Panic), detail)
			return
		}
		if r.Err != nil {
			c.Fail("scan-error", "error:"+kind, fmt.Sprintf("%s failed: %v", op.String(), r.Err), detail)
			return
		}
		if eq, at := rowsEq(want, r.Rows, false); !eq {
			detail["row"] = at
			detail["want"] = fmtRows(want, at)
			detail["got"] = fmtRows(r.Rows, at)
			detail["want_rows"] = len(want)
			detail["got_rows"] = len(r.Rows)
			c.Fail("range-mismatch", "range:"+kind, fmt.Sprintf("%s delivered %d entries, the full scan filtered by the reference order has %d (first difference at %d: want %s got %s)", op.String(), len(r.Rows), len(want), at, fmtRows(want, at), fmtRows(r.Rows, at)), detail)
			return
		}
		if len(want) > 0 && len(want) < n {
			c.Nontrivial = true
			c.Probe("proper-subrange-" + kind)
		}
		c.State(kind, len(op.From), len(want) == 0, len(want) == n, n > 50, li.table.WithoutRowid)
	}
	for ki, key := range keys {
		dk := dbKey(key, cols)
		// from-key scan: suffix beginning at the first entry not less than the key
		i0 := n
		for i, r := range recs {
			if cmpRec(r, key) >= 0 {
				i0 = i
				break
			}
		}
		o := li.op
		o.Kind, o.From = "iscanmin", dk
		check("scanmin", o, recs[i0:])
		// equality scan
		var eq [][]sq.Val
		for _, r := range recs {
			if refcmp.EqualKey(toIface(r), toIface(key), cols) {
				eq = append(eq, r)
			}
		}
		o = li.op
		o.Kind, o.From = "iscaneq", dk
		check("scaneq", o, eq)
		// range scan with another key as upper bound
		key2 := keys[(ki*7+3)%len(keys)]
		var rng [][]sq.Val
		for _, r := range recs {
			if cmpRec(r, key) >= 0 && cmpRec(r, key2) < 0 {
				rng = append(rng, r)
			}
		}
		o = li.op
		o.Kind, o.From, o.To = "iscanrange", dk, dbKey(key2, cols)
		check("scanrange", o, rng)
	}
}

func toIface(r []sq.Val) []interface{} { return r }

func c13Check(c *sim.Ctx, w *world.World) {
	d := openFresh(c, w.Path, cacheKnob[c.Src.Draw(len(cacheKnob), "cache")])
	defer d.Close()
	img, _ := os.ReadFile(w.Path)
	u := pagewalk.PageSize(img)
	budget := 150
	if c.Tier == "thorough" {
		budget = 500
	}
	for _, li := range lowIndexes(w) {
		if u > 0 && li.root > 0 {
			tr := pagewalk.Shape(img, u, li.root)
			if tr.Depth >= 2 {
				c.Probe("range-scan-on-multi-level-index")
			}
			if tr.Depth >= 3 {
				c.Probe("range-scan-on-depth>=3-index")
			}
		}
		c13Index(c, d, li, budget)
	}
}

func runC13(c *sim.Ctx) {
	s := c.Src
	prof := indexProfile(s, c.Tier)
	prof.Vacuum = false
	prof.Exprs = true
	wr := &worldRun{prof: prof, steps: 1 + s.Draw(5, "steps"), final: c13Check}
	w := wr.run(c)
	c.Sample = map[string]interface{}{"page_size": w.PageSz, "commits": w.Commits}
}

// ---------------------------------------------------------------- C17
// Stopping a scan early yields an exact prefix and ends the transaction.

// ownLocks lists the POSIX locks this process holds on the file (from /proc/locks).
func ownLocks(path string) ([]string, error) {
	st, err := os.Stat(path)
	if err != nil {
		return nil, err
	}
	ino := inodeOf(st)
	b, err := readProcLocks()
	if err != nil {
		return nil, err
	}
	var out []string
	pid := fmt.Sprint(os.Getpid())
	for _, l := range strings.Split(string(b), "\n") {
		f := strings.Fields(l)
		// 1: POSIX ADVISORY READ pid maj:min:inode start end
		if len(f) >= 8 && f[1] == "POSIX" && f[4] == pid && strings.HasSuffix(f[5], ":"+fmt.Sprint(ino)) {
			out = append(out, f[3]+" "+f[6]+" "+f[7])
		}
	}
	return out, nil
}

func c17Check(c *sim.Ctx, w *world.World) {
	s := c.Src
	d := openFresh(c, w.Path, cacheKnob[s.Draw(len(cacheKnob), "cache")])
	defer d.Close()
	img, _ := os.ReadFile(w.Path)
	u := pagewalk.PageSize(img)
	roots := map[string]int{}
	for _, m := range w.Snap.Master {
		roots[m.Type+"/"+fold.Lower(m.Name)] = m.Rootpage
	}
	type target struct {
		op   ops.Op
		root int
		high bool
	}
	var targets []target
	for _, t := range w.Snap.Tables {
		if !acceptedStrict(c, d, t.Name) {
			continue
		}
		targets = append(targets, target{ops.Op{Kind: "selectdone", Table: t.Name, Cols: t.ColNames()}, roots["table/"+fold.Lower(t.Name)], true})
		if t.WithoutRowid {
			targets = append(targets, target{ops.Op{Kind: "iscan", Table: t.Name, Lock: true}, roots["table/"+fold.Lower(t.Name)], false})
		} else {
			targets = append(targets, target{ops.Op{Kind: "tscan", Table: t.Name, Lock: true}, roots["table/"+fold.Lower(t.Name)], false})
		}
	}
	for _, li := range lowIndexes(w) {
		cols := ixCols(li.ix)
		o := li.op
		o.Kind = "iscan"
		targets = append(targets, target{o, li.root, false})
		// from-key / range / equality scans with keys from the snapshot
		if li.ix.HasEntries && len(li.ix.Entries) > 0 {
			e := li.ix.Entries[s.Draw(len(li.ix.Entries), "entry")]
			k := dbKey(e.Vals[:1], cols)
			o1 := li.op
			o1.Kind, o1.From = "iscanmin", k
			targets = append(targets, target{o1, li.root, false})
			o2 := li.op
			o2.Kind, o2.From = "iscaneq", k
			targets = append(targets, target{o2, li.root, false})
			e2 := li.ix.Entries[len(li.ix.Entries)-1]
			o3 := li.op
			o3.Kind, o3.From, o3.To = "iscanrange", k, dbKey(append(append([]sq.Val{}, e2.Vals...), int64(0)), cols)
			targets = append(targets, target{o3, li.root, false})
		}
	}
	for _, tg := range targets {
		full := ops.Run(d, tg.op, nil)
		c.Eval(1)
		if full.Panic != nil || full.Err != nil {
			c.Inc("full_scan_failed", 1)
			continue
		}
		n := len(full.Rows)
		if n == 0 {
			continue
		}
		// stop positions
		ks := map[int]bool{1: true, n: true}
		if n <= 500 {
			for k := 1; k <= n; k++ {
				ks[k] = true
			}
		} else {
			for i := 0; i < 100; i++ {
				ks[1+s.Draw(n, "k")] = true
			}
		}
		if u > 0 && tg.root > 0 {
			tr := pagewalk.Shape(img, u, tg.root)
			if tg.op.Kind == "iscan" || tg.op.Kind == "tscan" || tg.op.Kind == "selectdone" {
				for _, b := range tr.LeafLastIdx {
					for _, k := range []int{b - 1, b, b + 1} {
						if k >= 1 && k <= n {
							ks[k] = true
						}
					}
				}
				for _, b := range tr.InteriorEntryIdx {
					for _, k := range []int{b - 1, b, b + 1} {
						if k >= 1 && k <= n {
							ks[k] = true
							c.Probe("stop-at-interior-index-entry")
						}
					}
				}
			}
			if tr.Depth >= 2 {
				c.Probe("early-stop-in-multi-level-tree")
			}
			if tr.Depth >= 3 {
				c.Probe("early-stop-in-depth>=3-tree")
			}
		}
		var list []int
		for k := range ks {
			list = append(list, k)
		}
		sortInts(list)
		for _, k := range list {
			o := tg.op
			o.StopAt = k
			r := ops.Run(d, o, nil)
			c.Eval(1)
			detail := map[string]interface{}{"op": o.String(), "k": k, "of": n}
			if r.Panic != nil {
				c.Fail("panic", "panic:"+o.Kind, fmt.Sprintf("%s panicked: %v", o.String(), r.Panic), detail)
				continue
			}
			switch {
			case r.Err != nil:
				c.Fail("early-stop-error", "stop-error:"+o.Kind, fmt.Sprintf("%s: stopping after %d of %d rows returned an error: %v", o.String(), k, n, r.Err), detail)
			case r.CallAfterStop > 0 || r.Calls != k:
				c.Fail("callback-after-stop", "stop-ignored:"+o.Kind, fmt.Sprintf("%s: asked to stop after %d of %d rows, callback ran %d times", o.String(), k, n, r.Calls), detail)
			default:
				if eq, at := rowsEq(full.Rows[:k], r.Rows, false); !eq {
					c.Fail("not-a-prefix", "stop-prefix:"+o.Kind, fmt.Sprintf("%s: the %d rows delivered before stopping differ from the first %d of the full result at row %d", o.String(), k, k, at), detail)
				}
			}
			if tg.high {
				if l, err := ownLocks(w.Path); err == nil && len(l) > 0 {
					c.Fail("lock-held-after-stop", "stop-lock", fmt.Sprintf("%s: after stopping at row %d the process still holds locks %v", o.String(), k, l), detail)
				} else if err == nil {
					c.Probe("lock-table-checked-after-stop")
				}
			}
			if k < n {
				c.Nontrivial = true
			}
			c.State(o.Kind, k == 1, k == n, n > 100)
		}
	}
}

func sortInts(a []int) {
	for i := 1; i < len(a); i++ {
		for j := i; j > 0 && a[j] < a[j-1]; j-- {
			a[j], a[j-1] = a[j-1], a[j]
		}
	}
}

func runC17(c *sim.Ctx) {
	s := c.Src
	prof := indexProfile(s, c.Tier)
	prof.Vacuum = false
	prof.RowsHi = 200
	prof.MaxTables = 2
	prof.IndexesHi = 2
	wr := &worldRun{prof: prof, steps: s.Draw(4, "steps"), final: c17Check}
	w := wr.run(c)
	c.Sample = map[string]interface{}{"page_size": w.PageSz, "commits": w.Commits}
}

func init() {
	sim.Register(&sim.Prop{
		ID: "C13", Engine: "E-WORLD", Level: "exploration", Fn: runC13, NewEnv: NewEnv,
		Runs: map[string]int{"quick": 160, "thorough": 5000},
		Rule: "per run: seeded writer history (deep index trees with ~100-byte keys, duplicates, NULLs, mixed classes, COLLATE/DESC columns, WITHOUT ROWID tables); at the final commit, for every index and WITHOUT ROWID table: Index.Scan, then for keys at all cut points (every stored entry's every prefix, neighbours of the last key column, keys longer than the records, extremes; exhaustive <=200 entries else drawn) ScanMin / ScanEq / ScanRange with the index's own DESC/COLLATE flags vs the full scan filtered with the independent reference comparator; evaluations = scans compared; non-trivial = a scan returned a proper non-empty sub-range; distinct = distinct event logs",
		Real: append([]string{"unix file pager on real files"}, realAll...), Stub: []string{},
		Assumptions: []string{"KeyCol flags are set to the flags of the index (the order the property's 'not less than' presupposes)", "the full scan's order is tied to SQLite by C02; runs whose full scan is not in reference order are counted and left to C02"},
		MaxRunSecs: 600,
		Vacuity: func(st map[string]int64, runs int, tier string) error {
			for _, p := range []string{"proper-subrange-scanmin", "proper-subrange-scaneq", "proper-subrange-scanrange", "range-scan-on-depth>=3-index"} {
				if st["probe."+p] == 0 {
					return fmt.Errorf("reach probe %q is zero", p)
				}
			}
			if st["full_scan_not_in_reference_order"]*20 > int64(runs) {
				return fmt.Errorf("%d full scans were not in reference order", st["full_scan_not_in_reference_order"])
			}
			return nil
		},
	})
	sim.Register(&sim.Prop{
		ID: "C17", Engine: "E-WORLD", Level: "exploration", Fn: runC17, NewEnv: NewEnv,
		Runs: map[string]int{"quick": 320, "thorough": 5000},
		Rule: "per run: seeded writer history; at the final commit, for SelectDone, Table.Scan, Index.Scan, WITHOUT ROWID scans, ScanMin, ScanEq, ScanRange: the callback asks to stop after k rows for every k (exhaustive <=500 rows, else the last row of each leaf, each interior index entry and their neighbours from the page walker plus 100 drawn); exactly k callbacks, rows equal to the first k of the full result, nil error, and for SelectDone no POSIX lock of this process left on the file (/proc/locks); evaluations = stopped scans; non-trivial = stopped before the end; distinct = distinct event logs",
		Real: append([]string{"unix file pager on real files, real kernel lock table read from /proc/locks"}, realAll...), Stub: []string{},
		Assumptions: []string{"fault-free configuration"},
		MaxRunSecs: 600,
		Vacuity: func(st map[string]int64, runs int, tier string) error {
			for _, p := range []string{"early-stop-in-multi-level-tree", "stop-at-interior-index-entry", "lock-table-checked-after-stop", "early-stop-in-depth>=3-tree"} {
				if st["probe."+p] == 0 {
					return fmt.Errorf("reach probe %q is zero", p)
				}
			}
			return nil
		},
	})
}

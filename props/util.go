package props

import (
	"database/sql"
	"fmt"
	"os"
	"os/exec"
	"runtime/debug"
	"syscall"
	"time"

	"github.com/alicebob/sqlittle"
	_ "github.com/alicebob/sqlittle/driver"

	"verif/gen"
	"verif/sim"
)

func stackNow() string { return string(debug.Stack()) }

func extraCmd(name string, fn func([]string) int) { sim.Extra[name] = fn }

func runWithTimeout(cmd *exec.Cmd, secs int) error {
	if err := cmd.Start(); err != nil {
		return err
	}
	done := make(chan error, 1)
	go func() { done <- cmd.Wait() }()
	select {
	case err := <-done:
		return err
	case <-time.After(time.Duration(secs) * time.Second):
		cmd.Process.Kill()
		<-done
		return fmt.Errorf("timeout after %ds (hang)", secs)
	}
}

// c05drv <path> <tables...>: run the database/sql driver over the file; a panic
// anywhere (also in the producer goroutine) kills this process = the observation.
func c05drv(args []string) int {
	if len(args) < 1 {
		return 3
	}
	// an allocation loop must kill this child, not the sandbox
	lim := syscall.Rlimit{Cur: 4 << 30, Max: 4 << 30}
	syscall.Setrlimit(syscall.RLIMIT_AS, &lim)
	db, err := sql.Open("sqlittle", args[0])
	if err != nil {
		return 0
	}
	defer db.Close()
	for _, t := range args[1:] {
		rows, err := db.Query("SELECT * FROM " + gen.Quote(t))
		if err != nil {
			continue
		}
		cols, _ := rows.Columns()
		n := 0
		for rows.Next() {
			vals := make([]interface{}, len(cols))
			ptrs := make([]interface{}, len(cols))
			for i := range vals {
				ptrs[i] = &vals[i]
			}
			rows.Scan(ptrs...)
			n++
			if n > 1_000_000 {
				fmt.Fprintln(os.Stderr, "driver delivered more than 1e6 rows")
				os.Exit(4)
			}
		}
		rows.Err()
		rows.Close()
	}
	return 0
}

func sqlittleOpen(path string) (*sqlittle.DB, error) { return sqlittle.Open(path) }

func init() { extraCmd("agent", func([]string) int { return agentMain() }) }

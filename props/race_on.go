//go:build race

package props

const raceEnabled = true

package props

import (
	"verif/fold"
	"fmt"
	"os"
	"regexp"
	"strconv"
	"strings"

	"github.com/alicebob/sqlittle"

	"verif/ops"
	"verif/sim"
	"verif/sq"
	"verif/world"
)

// C01 — table scan returns exactly the table's rows, values and order.
// E-WORLD single process, fault free: after EVERY commit of a generated writer
// history, Select/SelectDone with drawn column lists on a fresh handle and on a
// warm handle (repeat read, drawn cache size) vs SQLite's own content.

func checkSelect(c *sim.Ctx, d *sqlittle.DB, t *sq.Table, cols []string, acc bool, label string) {
	want, ok := project(t, cols)
	r := ops.Run(d, ops.Op{Kind: "select", Table: t.Name, Cols: cols}, nil)
	c.Eval(1)
	detail := map[string]interface{}{"table": t.Name, "columns": cols, "handle": label}
	if r.Panic != nil {
		c.Fail("panic", "panic:select", fmt.Sprintf("Select(%s) panicked: %v", t.Name, r.Panic), detail)
	}
	if !ok {
		// SQLite rejects the column list: sqlittle must not deliver rows
		if r.Err == nil && !(len(t.Rows) == 0) {
			c.Fail("rows-for-invalid-columns", "invalid-columns-accepted", fmt.Sprintf("Select(%s, %v): SQLite has no such column but sqlittle returned %d rows and no error", t.Name, cols, len(r.Rows)), detail)
		}
		return
	}
	if r.Err != nil {
		if len(r.Rows) > 0 {
			c.Fail("rows-and-error", "rows-and-error", fmt.Sprintf("Select(%s, %v) delivered %d rows and then failed: %v", t.Name, cols, len(r.Rows), r.Err), detail)
		}
		if acc {
			c.Fail("error-on-accepted-table", "select-error", fmt.Sprintf("Select(%s, %v) failed on a table whose definition sqlittle accepts: %v", t.Name, cols, r.Err), detail)
		}
		c.Inc("rejected_definitions", 1)
		return
	}
	if eq, at := rowsEq(want, r.Rows, true); !eq {
		detail["row"] = at
		detail["want"] = fmtRows(want, at)
		detail["got"] = fmtRows(r.Rows, at)
		detail["want_rows"] = len(want)
		detail["got_rows"] = len(r.Rows)
		kind := "value-mismatch"
		if len(want) != len(r.Rows) {
			kind = "row-count"
		}
		// coarse cause for the signature: which column differs
		sig := kind
		if at < len(want) && at < len(r.Rows) {
			for i := range want[at] {
				if i < len(r.Rows[at]) && !valEqRelaxed(want[at][i], r.Rows[at][i]) {
					detail["column"] = cols[i]
					sig = kind + ":" + classify(t, cols[i], want[at][i], r.Rows[at][i])
					break
				}
			}
		}
		c.Fail(kind, sig, fmt.Sprintf("Select(%s, %v) [%s handle] differs from SQLite at row %d: want %s got %s (%d vs %d rows)", t.Name, cols, label, at, fmtRows(want, at), fmtRows(r.Rows, at), len(want), len(r.Rows)), detail)
	}
}

// classify names the kind of difference (used in signatures so that distinct
// defects are reported separately).
func classify(t *sq.Table, col string, want, got sq.Val) string {
	k := t.ColIndex(col)
	if k >= 0 {
		cdef := visibleCol(t, k)
		if cdef.Dflt != nil && got != nil && sameUnderAffinity(want, got) {
			// the value came out as the DEFAULT literal without the column's affinity applied
			return "default-affinity"
		}
		if gs, ok := got.(string); ok && cdef.Dflt != nil {
			// DEFAULT TRUE / DEFAULT FALSE: SQLite (3.23+) reads the bare keywords as 1 / 0
			d := fold.Lower(strings.TrimSpace(*cdef.Dflt))
			if (d == "true" || d == "false") && fold.Lower(gs) == d {
				if n, isNum := asNumber(want); isNum && ((d == "true" && n == 1) || (d == "false" && n == 0)) {
					return "default-true-false"
				}
			}
		}
	}
	return fmt.Sprintf("%T->%T", want, got)
}

var numericRe = regexp.MustCompile(`^\s*[+-]?(\d+\.?\d*([eE][+-]?\d+)?|\.\d+([eE][+-]?\d+)?)\s*$`)

func asNumber(v sq.Val) (float64, bool) {
	switch x := v.(type) {
	case int64:
		return float64(x), true
	case float64:
		return x, true
	case string:
		if numericRe.MatchString(x) {
			f, err := strconv.ParseFloat(strings.TrimSpace(x), 64)
			return f, err == nil
		}
	}
	return 0, false
}

// sameUnderAffinity: want and got are the same number, differing only in the
// storage class a column affinity would have given (text<->int<->real).
func sameUnderAffinity(want, got sq.Val) bool {
	if fmt.Sprintf("%T", want) == fmt.Sprintf("%T", got) {
		return false
	}
	a, ok1 := asNumber(want)
	b, ok2 := asNumber(got)
	return ok1 && ok2 && a == b
}

func visibleCol(t *sq.Table, k int) sq.Column {
	i := 0
	for _, cdef := range t.Columns {
		if cdef.Hidden != 0 {
			continue
		}
		if i == k {
			return cdef
		}
		i++
	}
	return sq.Column{}
}

func c01Check(c *sim.Ctx, w *world.World) {
	s := c.Src
	fresh := openFresh(c, w.Path, 0)
	defer fresh.Close()
	warm := openFresh(c, w.Path, cacheKnob[s.Draw(len(cacheKnob), "cache")])
	defer warm.Close()
	for _, t := range w.Snap.Tables {
		if !t.HasRows {
			continue
		}
		acc, aerr := accepted(fresh, t.Name)
		if !acc && !isDefinitionRejection(aerr) {
			c.Fail("schema-unreadable", "schema-read-error", fmt.Sprintf("Schema(%s) failed on a database SQLite just committed, and not because of the definition: %v", t.Name, aerr), map[string]interface{}{"table": t.Name})
		}
		if acc {
			c.Inc("accepted_definitions", 1)
		} else {
			c.Inc("unaccepted_definitions", 1)
			if os.Getenv("VERIF_TRACE") != "" {
				for _, m := range w.Snap.Master {
					if m.Name == t.Name && m.SQL != nil {
						fmt.Fprintf(os.Stderr, "REJECTED %v :: %s\n", aerr, strings.ReplaceAll(*m.SQL, "\n", " "))
					}
				}
			}
		}
		all := t.ColNames()
		checkSelect(c, fresh, t, all, acc, "fresh")
		cols := drawCols(s, t)
		checkSelect(c, fresh, t, cols, acc, "fresh")
		checkSelect(c, warm, t, all, acc, "warm")
		checkSelect(c, warm, t, cols, acc, "warm-repeat")
		// Columns() in definition order
		rc := ops.Run(fresh, ops.Op{Kind: "columns", Table: t.Name}, nil)
		c.Eval(1)
		if rc.Err == nil && acc {
			if !strsEqFold(rc.Strs, all) {
				c.Fail("columns-mismatch", "columns", fmt.Sprintf("Columns(%s) = %v, SQLite: %v", t.Name, rc.Strs, all), nil)
			}
		}
		// low level scan: count and rowids
		if acc && !t.WithoutRowid && t.Rowids != nil {
			lr := ops.Run(fresh, ops.Op{Kind: "tscan", Table: t.Name, Lock: true}, nil)
			c.Eval(1)
			if lr.Err != nil || len(lr.Rows) != len(t.Rowids) {
				c.Fail("low-scan-count", "tscan-count", fmt.Sprintf("Table(%s).Scan: %d records err=%v, SQLite has %d rows", t.Name, len(lr.Rows), lr.Err, len(t.Rowids)), nil)
			}
			for i, row := range lr.Rows {
				if rid, _ := row[0].(int64); rid != t.Rowids[i] {
					c.Fail("low-scan-rowid", "tscan-rowid", fmt.Sprintf("Table(%s).Scan record %d has rowid %v, SQLite %d", t.Name, i, row[0], t.Rowids[i]), nil)
				}
			}
		}
		if len(t.Rows) > 0 {
			c.Nontrivial = true
		}
		if t.WithoutRowid && acc {
			c.Probe("without-rowid-table-read")
		}
		for _, cdef := range t.Columns {
			if cdef.Dflt != nil {
				c.Probe("column-with-default")
				break
			}
		}
	}
	if w.Snap.Stat != nil {
		for _, st := range w.Snap.Stat {
			if st.Overflow >= 3 {
				c.Probe("overflow-chain>=3-pages")
			}
		}
	}
	treeProbes(c, w)
}

func strsEqFold(a, b []string) bool {
	if len(a) != len(b) {
		return false
	}
	for i := range a {
		if !fold.Equal(a[i], b[i]) {
			return false
		}
	}
	return true
}

func runC01(c *sim.Ctx) {
	s := c.Src
	prof := world.Profile{PageSizes: world.AllPageSizes, MaxTables: 3, RowsLo: 0, RowsHi: 250, Fancy: 4, DDL: true, Vacuum: true, TextBoolDefaults: true,
		Boundary: true, LongKeys: 2, WithoutRow: 3, IndexesHi: 2, Exprs: true, DbStat: true}
	switch s.Weighted([]int{6, 3, 1, 1}, "profile") {
	case 3: // many small tables: sqlite_master itself becomes a multi-level tree
		prof.MaxTables = 40
		prof.RowsHi = 4
		prof.IndexesHi = 1
		prof.Boundary = false
		prof.PageSizes = []int{512, 1024, 4096}
		c.Probe("many-tables-profile")
	case 1: // small pages, more rows: deeper trees
		prof.PageSizes = []int{512, 1024}
		prof.RowsHi = 1500
		prof.MaxTables = 2
	case 2:
		prof.RowsHi = 60
		prof.Fancy = 8
	}
	if c.Tier == "thorough" && s.Chance(1, 50, "deep") {
		prof.PageSizes = []int{512}
		prof.RowsLo, prof.RowsHi = 20000, 30000
		prof.MaxTables = 1
		prof.Boundary = false
		prof.IndexesHi = 0
	}
	wr := &worldRun{prof: prof, steps: 3 + s.Draw(10, "steps"), check: c01Check}
	w := wr.run(c)
	c.Sample = map[string]interface{}{"page_size": w.PageSz, "auto_vacuum": w.AutoVac, "journal_mode": w.JMode, "commits": w.Commits}
}

func init() {
	sim.Register(&sim.Prop{
		ID: "C01", Engine: "E-WORLD", Level: "exploration", Fn: runC01, NewEnv: NewEnv,
		Runs: map[string]int{"quick": 128, "thorough": 6000},
		Rule: "per run: a seeded writer history through real SQLite (drawn page size 512..65536, auto_vacuum, journal mode; DDL grammar incl. WITHOUT ROWID, rowid aliases, defaults; value grid; payloads around the spill thresholds; updates, deletes, ALTER, DROP/CREATE, VACUUM); after EVERY commit, for every table: Select with all columns and with a drawn column list (subset/permutation/repeats/rowid aliases/case variants/unknown columns) on a fresh and on a warm handle (drawn cache size), Columns, low-level Table.Scan; compared with SQLite's snapshot value by value and storage class by storage class (documented integral-REAL relaxation); evaluations = read operations compared; non-trivial run = read at least one non-empty table; distinct = distinct event logs",
		Real: append([]string{"unix file pager (mmap + fcntl locks) on real files on tmpfs"}, realAll...),
		Stub: []string{},
		Assumptions: []string{"fault-free configuration of the simulated world (the statement has no fault in it); what the simulation contributes is the history-built state space and the handle/cache dimension", "errors are accepted only for tables whose definition sqlittle itself rejects (Schema() fails)"},
		MaxRunSecs: 600,
		Vacuity: func(st map[string]int64, runs int, tier string) error {
			a, u := st["accepted_definitions"], st["unaccepted_definitions"]
			if a*10 < (a+u)*6 {
				return fmt.Errorf("only %d of %d table definitions accepted by sqlittle", a, a+u)
			}
			for _, p := range []string{"table-tree-depth>=3", "overflow-chain>=3-pages", "without-rowid-table-read", "column-with-default"} {
				if st["probe."+p] == 0 {
					return fmt.Errorf("reach probe %q is zero", p)
				}
			}
			return nil
		},
	})
}

//go:build !race

package props

const raceEnabled = false

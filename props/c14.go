package props

import (
	"fmt"
	"math"

	"verif/gen"
	"verif/sim"
	"verif/sq"
	"verif/world"
)

// C14 — records, varints and spilled payloads decode exactly per the file format.
// E-WORLD content oracle with the boundary profile of the value grid: SQLite
// writes the values, sqlittle reads them back through table and index cells.

func runC14(c *sim.Ctx) {
	s := c.Src
	e := env(c)
	dir, cleanup := e.RunDir()
	defer cleanup()
	sizes := []int{512, 1024, 512, 1024, 2048, 4096, 8192, 16384, 32768, 65536}
	u := sizes[s.Draw(len(sizes), "pagesize")]
	prof := world.Profile{PageSizes: []int{u}, DbStat: true}
	w := world.New(c, e.W, dir, prof)
	defer w.Close()
	w.Refresh()
	blob := s.Chance(1, 2, "blob")

	// --- payload length sweep, table cells and index cells
	w.Begin()
	w.Exec("CREATE TABLE pa (id INTEGER PRIMARY KEY, v)")
	w.Exec("CREATE INDEX pai ON pa (v)")
	w.Exec("CREATE TABLE pw (k PRIMARY KEY, v) WITHOUT ROWID")
	w.Commit()
	lens := map[int]bool{}
	exhaustive := false
	if u <= 1024 && s.Chance(2, 3, "exhaustive") {
		exhaustive = true
		hi := 3*u + 40
		for l := 0; l <= hi; l++ {
			lens[l] = true
		}
		c.Probe("exhaustive-length-sweep")
	} else {
		for _, t := range gen.Thresholds(u) {
			for d := -9; d <= 4; d++ {
				if t+d >= 0 {
					lens[t+d] = true
				}
			}
		}
		for i := 0; i < 40; i++ {
			lens[s.Draw(3*u, "len")] = true
		}
		// long chains: 1..20 overflow pages
		for _, n := range []int{1, 2, 3, 5, 20} {
			if n*(u-4) < 1500000 {
				lens[n*(u-4)+u-35-6+s.Draw(12, "chain")] = true
			}
		}
		lens[0], lens[1] = true, true
		// a payload beyond 2^21 bytes: payload-size and serial-type varints of 4 bytes
		if u >= 4096 && s.Chance(1, map[bool]int{true: 3, false: 6}[c.Tier == "thorough"], "two-mebibytes") {
			lens[(1<<21)+1+s.Draw(200, "over2m")] = true
			c.Probe("varint-4-bytes")
		}
	}
	var ll []int
	for l := range lens {
		ll = append(ll, l)
	}
	sortInts(ll)
	var rows [][]sq.Val
	var rowsW [][]sq.Val
	for _, l := range ll {
		rows = append(rows, []sq.Val{gen.Payload(l, l, blob)})
		rowsW = append(rowsW, []sq.Val{gen.Payload(l, l+7, blob), int64(l)})
	}
	w.Begin()
	w.Many("INSERT INTO pa(v) VALUES (?)", rows)
	w.Many("INSERT OR IGNORE INTO pw(k, v) VALUES (?, ?)", rowsW)
	w.Commit()
	// which branch of the local-payload rule each length lands in (reach probes)
	xt, xi, m := u-35, ((u-12)*64)/255-23, ((u-12)*32)/255-23
	for _, l := range ll {
		p := l + 3 // approx header
		for _, x := range []struct {
			name string
			x    int
		}{{"table", xt}, {"index", xi}} {
			switch {
			case p <= x.x:
				c.Probe("local-all-" + x.name)
			case m+(p-m)%(u-4) <= x.x:
				c.Probe("local-K-" + x.name)
			default:
				c.Probe("local-M-" + x.name)
			}
		}
	}

	// --- integer widths, floats, rowid varint lengths
	w.Begin()
	w.Exec("CREATE TABLE pb (id INTEGER PRIMARY KEY, i, r, t)")
	w.Exec("CREATE INDEX pbi ON pb (i)")
	w.Exec("CREATE INDEX pbr ON pb (r DESC)")
	w.Commit()
	var rowsB [][]sq.Val
	rid := map[int64]bool{}
	addB := func(rowid int64, i sq.Val, r sq.Val, t sq.Val) {
		if rid[rowid] {
			return
		}
		rid[rowid] = true
		rowsB = append(rowsB, []sq.Val{rowid, i, r, t})
	}
	rowids := []int64{0, 1, -1, 127, 128, 16383, 16384, 2097151, 2097152, 268435455, 268435456, 34359738367, 34359738368,
		4398046511103, 4398046511104, 562949953421311, 562949953421312, 72057594037927935, 72057594037927936, math.MaxInt64, math.MinInt64, -2, -129}
	ints := gen.IntGrid()
	reals := gen.RealGrid()
	texts := gen.TextGrid()
	k := 0
	for _, v := range ints {
		for d := int64(-1); d <= 1; d++ {
			x := v
			if (d > 0 && v < math.MaxInt64) || (d < 0 && v > math.MinInt64) {
				x = v + d
			}
			var r sq.Val = reals[k%len(reals)]
			var rowid int64
			if k < len(rowids) {
				rowid = rowids[k]
			} else {
				rowid = int64(1000 + k)
			}
			addB(rowid, x, r, texts[k%len(texts)])
			k++
		}
	}
	w.Begin()
	w.Many("INSERT OR REPLACE INTO pb(id, i, r, t) VALUES (?,?,?,?)", rowsB)
	w.Commit()
	c.Probe("rowid-varint-1..9-bytes")

	// --- many columns: record header longer than 127 bytes
	ncol := 70 + s.Draw(60, "ncol")
	var defs, ph []string
	for i := 0; i < ncol; i++ {
		defs = append(defs, fmt.Sprintf("c%d", i))
		ph = append(ph, "?")
	}
	w.Begin()
	w.Exec("CREATE TABLE pc (" + joinStr(defs, ", ") + ")")
	var rowsC [][]sq.Val
	for r := 0; r < 12; r++ {
		var row []sq.Val
		for i := 0; i < ncol; i++ {
			if r%3 == 0 && i%5 == 0 {
				// long values push serial types to 2-3 byte varints
				row = append(row, gen.Payload(70+s.Draw(9000, "plen"), r*1000+i, i%2 == 0))
			} else {
				row = append(row, gen.Value(s, gen.DefaultMix))
			}
		}
		rowsC = append(rowsC, row)
	}
	w.Many("INSERT INTO pc VALUES ("+joinStr(ph, ",")+")", rowsC)
	w.Commit()
	c.Probe("record-header>127-bytes")

	// --- read everything back
	fresh := openFresh(c, w.Path, cacheKnob[s.Draw(len(cacheKnob), "cache")])
	defer fresh.Close()
	for _, t := range w.Snap.Tables {
		checkSelect(c, fresh, t, t.ColNames(), true, "fresh")
		for _, ix := range t.Indexes {
			if t.WithoutRowid && ix.Origin == "pk" {
				continue
			}
			checkIndexedSelect(c, fresh, t, ix, t.ColNames(), "fresh")
		}
		if len(t.Rows) > 0 {
			c.Nontrivial = true
		}
	}
	for name, st := range w.Snap.Stat {
		if st.Overflow > 0 {
			c.Probe("overflow-pages-read")
		}
		if st.Overflow > 0 && (name == "pai" || name == "pw") {
			c.Probe("index-cell-overflow")
		}
	}
	c.State(u, exhaustive, blob)
	c.Sample = map[string]interface{}{"page_size": u, "exhaustive_lengths": exhaustive, "lengths": len(ll), "blob": blob, "wide_columns": ncol}
	c.Log.Add("sim", "c14", "u=%d lengths=%d exhaustive=%v ncol=%d", u, len(ll), exhaustive, ncol)
}

func joinStr(a []string, sep string) string {
	out := ""
	for i, s := range a {
		if i > 0 {
			out += sep
		}
		out += s
	}
	return out
}

func init() {
	sim.Register(&sim.Prop{
		ID: "C14", Engine: "E-WORLD", Level: "exploration", Fn: runC14, NewEnv: NewEnv,
		Runs: map[string]int{"quick": 96, "thorough": 1200},
		Rule: "per run: one page size (all nine are drawn from); real SQLite stores (a) text or blob payloads of EVERY length 0..3 pages (+40) for 512/1024-byte pages (two runs in three), otherwise lengths X-9..X+4 around every local-payload threshold (table X, index X, M, the K-flip lengths for 0..3 overflow pages), 40 drawn lengths, chains of 1,2,3,5,20 overflow pages and (one run in six - thorough: three - on pages >= 4096) a payload of 2^21+ bytes whose payload-size and serial-type varints take 4 bytes - in table leaf cells, in index cells (CREATE INDEX) and as WITHOUT ROWID primary keys; (b) every integer-width boundary +-1, all float classes, rowids needing 1..9 varint bytes incl. negative; (c) rows of 70-130 columns (record header > 127 bytes, multi-byte serial types); everything is read back through Select and IndexedSelect and compared with SQLite value by value; evaluations = reads compared; distinct = distinct event logs; states = (page size, exhaustive?, text/blob)",
		Real: append([]string{"unix file pager on real files"}, realAll...), Stub: []string{},
		Assumptions: []string{"fault-free configuration; input-space exploration evaluated inside the simulated world (see DESIGN §7 remark): the property has no schedule or fault", "9-byte serial types cannot be produced by SQLite; that part of the quantifier is reached under C05 only"},
		MaxRunSecs: 600,
		Vacuity: func(st map[string]int64, runs int, tier string) error {
			for _, p := range []string{"exhaustive-length-sweep", "local-all-table", "local-K-table", "local-M-table", "local-all-index", "local-K-index", "local-M-index", "index-cell-overflow", "record-header>127-bytes", "varint-4-bytes"} {
				if st["probe."+p] == 0 {
					return fmt.Errorf("reach probe %q is zero", p)
				}
			}
			return nil
		},
	})
}

package props

import (
	"bytes"
	"database/sql"
	"fmt"
	"os"
	"os/exec"
	"strings"
	"sync"

	"github.com/alicebob/sqlittle"
	sdb "github.com/alicebob/sqlittle/db"
	ssql "github.com/alicebob/sqlittle/sql"

	"verif/gen"
	"verif/ops"
	"verif/pg"
	"verif/sim"
	"verif/sq"
	"verif/world"
)

// C20 — independent handles can be used from concurrent goroutines.
// Deterministic half: goroutines with their own handles, parked at pager and
// callback yield points and released one at a time by the seeded scheduler;
// every operation must return what it returns when run alone.
// Race half (E-RACE, not deterministic simulation): the same workloads run with
// real parallelism; the whole check is built with -race, a report kills the
// worker and is reported as a violation (sound, replayed from its seed).

type c20Task struct {
	file   int
	op     ops.Op
	solo   string
	result string
}

func resultDigest(r ops.Result) string {
	s := hashVals(r.Rows) + "|" + strings.Join(r.Strs, ",")
	if r.Err != nil {
		s += "|err:" + r.Err.Error()
	}
	if r.Panic != nil {
		s += fmt.Sprintf("|panic:%v", r.Panic)
	}
	if r.NilRow {
		s += "|nil"
	}
	if r.Schema != nil {
		s += fmt.Sprintf("|schema:%+v", *r.Schema)
	}
	return s
}

func runC20(c *sim.Ctx) {
	s := c.Src
	e := env(c)
	// one or two databases
	nfiles := 1 + s.Draw(2, "nfiles")
	var paths []string
	var snaps []*sq.Snapshot
	for f := 0; f < nfiles; f++ {
		prof := world.Profile{PageSizes: []int{512, 1024, 4096}, MaxTables: 2, RowsLo: 1, RowsHi: 80, Fancy: 2, WithoutRow: 3, IndexesHi: 2,
			Boundary: true, LongKeys: 3, JournalMode: []string{"DELETE", "PERSIST", "PERSIST", "TRUNCATE"}} // a persisted journal stays beside the file: every read transaction then inspects it
		sub, subClean := e.RunDir()
		defer subClean()
		w := world.New(c, e.W, sub, prof)
		w.Build()
		for i := s.Draw(3, "steps"); i > 0; i-- {
			w.Step()
		}
		w.Close()
		if w.Snap == nil || len(w.Snap.Tables) == 0 {
			c.Inc("world_without_tables", 1)
			return
		}
		paths = append(paths, w.Path)
		snaps = append(snaps, w.Snap)
	}
	ng := 2 + s.Draw(5, "goroutines")
	mode := "lockstep"
	if s.Chance(1, 3, "parallel") {
		mode = "parallel"
	}
	// tasks per goroutine
	tasks := make([][]*c20Task, ng)
	for g := 0; g < ng; g++ {
		f := s.Draw(nfiles, "file")
		fam := readFamily(s, snaps[f], true)
		fam = append(fam, ops.Op{Kind: "parse"})
		m := 1 + s.Draw(4, "nops")
		for i := 0; i < m && len(fam) > 0; i++ {
			tasks[g] = append(tasks[g], &c20Task{file: f, op: fam[s.Draw(len(fam), "op")]})
		}
	}
	runOp := func(d *sqlittle.DB, op ops.Op, hook ops.Hook) ops.Result {
		if op.Kind == "parse" {
			// the parser and the collation table are package-level state
			st, err := ssql.Parse("CREATE TABLE x (a TEXT COLLATE nocase PRIMARY KEY DESC, b, UNIQUE (b, a))")
			r := ops.Result{Err: err, Strs: []string{fmt.Sprintf("%+v", st)}}
			r.Strs = append(r.Strs, fmt.Sprint(sdb.Equals(sdb.Key{{V: "A", Collate: "nocase"}}, sdb.Record{"a"})))
			return r
		}
		return ops.Run(d, op, hook)
	}
	// solo results
	for g := range tasks {
		for _, t := range tasks[g] {
			d, err := sqlittle.Open(paths[t.file])
			if err != nil {
				c.Troublef("open: %v", err)
			}
			t.solo = resultDigest(runOp(d, t.op, nil))
			d.Close()
		}
	}
	c.Log.Add("sim", "plan", "files=%d goroutines=%d mode=%s", nfiles, ng, mode)
	c.Sample = map[string]interface{}{"files": nfiles, "goroutines": ng, "mode": mode}
	c.Nontrivial = true
	c.State(mode, nfiles, ng)

	if mode == "parallel" {
		// E-RACE: free running goroutines, own handles; plus a database/sql pool
		var wg sync.WaitGroup
		for g := range tasks {
			wg.Add(1)
			go func(g int) {
				defer wg.Done()
				for rep := 0; rep < 3; rep++ {
					for _, t := range tasks[g] {
						d, err := sqlittle.Open(paths[t.file])
						if err != nil {
							t.result = "open:" + err.Error()
							continue
						}
						t.result = resultDigest(runOp(d, t.op, nil))
						d.Close()
					}
				}
			}(g)
		}
		if len(snaps[0].Tables) > 0 {
			db, err := sql.Open("sqlittle", paths[0])
			if err == nil {
				for k := 0; k < 4; k++ {
					wg.Add(1)
					go func(k int) {
						defer wg.Done()
						t := snaps[0].Tables[k%len(snaps[0].Tables)]
						rows, err := db.Query("SELECT * FROM " + gen.Quote(t.Name))
						if err != nil {
							return
						}
						for rows.Next() {
						}
						rows.Close()
					}(k)
				}
				wg.Wait()
				db.Close()
			}
		}
		wg.Wait()
		c.Probe("parallel-run")
		// cold start: in THIS process every package-level lazily initialised value has
		// long been initialised (the solo results above). A fresh child whose very
		// first parses and reads run concurrently sees the uninitialised state.
		self, _ := os.Executable()
		cmd := exec.Command(self, append([]string{"c20cold"}, paths...)...)
		cmd.Env = append(os.Environ(), "GORACE=halt_on_error=1 exitcode=66")
		var eb bytes.Buffer
		cmd.Stderr = &eb
		err := runWithTimeout(cmd, 120)
		c.Eval(1)
		c.Probe("cold-start-child")
		if err != nil {
			site := "unknown"
			for _, l := range strings.Split(eb.String(), "\n") {
				l = strings.TrimSpace(l)
				if strings.HasPrefix(l, "github.com/alicebob/sqlittle") {
					site = strings.TrimPrefix(strings.SplitN(l, "(", 2)[0], "github.com/alicebob/sqlittle")
					break
				}
			}
			kind := "cold-start-failure"
			if strings.Contains(eb.String(), "DATA RACE") {
				kind = "data-race"
			}
			c.Fail(kind, kind+":cold-start:"+strings.Trim(site, "/."), fmt.Sprintf("a fresh process whose first operations run concurrently on separate handles: %v: %s", err, firstLine(eb.String())),
				map[string]interface{}{"stderr": trimStack(eb.String())})
		}
	} else {
		// lock-step: every goroutine parks at each pager event and callback
		type gstate struct {
			ev     chan string
			resume chan struct{}
			done   bool
		}
		gs := make([]*gstate, ng)
		for g := range gs {
			gs[g] = &gstate{ev: make(chan string), resume: make(chan struct{})}
		}
		for g := range tasks {
			go func(g int) {
				st := gs[g]
				park := func(what string) {
					st.ev <- what
					<-st.resume
				}
				park("start")
				for _, t := range tasks[g] {
					fp, err := sdb.VerifFilePager(paths[t.file])
					if err != nil {
						t.result = "open:" + err.Error()
						continue
					}
					tr := &pg.Trace{P: fp}
					tr.Event = func(kind string, n int, err error) { park(kind) }
					low, err := sdb.VerifOpen(tr, paths[t.file]+"-journal")
					if err != nil {
						t.result = "open:" + err.Error()
						continue
					}
					d := sqlittle.VerifWrap(low)
					t.result = resultDigest(runOp(d, t.op, func(i int) { park("callback") }))
					d.Close()
				}
				st.done = true
				st.ev <- "done"
			}(g)
		}
		// every goroutine runs to its first park
		for g := range gs {
			<-gs[g].ev
		}
		steps := 0
		for {
			var alive []int
			for g, st := range gs {
				if !st.done {
					alive = append(alive, g)
				}
			}
			if len(alive) == 0 {
				break
			}
			g := alive[s.Draw(len(alive), "schedule")]
			// run a burst of 1..8 events of that goroutine
			burst := 1 + s.Draw(8, "burst")
			for b := 0; b < burst && !gs[g].done; b++ {
				gs[g].resume <- struct{}{}
				what := <-gs[g].ev
				steps++
				if steps <= 400 {
					c.Log.Add(fmt.Sprintf("G%d", g), "ev", "%s", what)
				}
			}
			if steps > 2_000_000 {
				c.Troublef("schedule does not terminate")
			}
		}
		c.Inc("interleaved_events", int64(steps))
		c.Probe("lockstep-run")
	}
	for g := range tasks {
		for i, t := range tasks[g] {
			c.Eval(1)
			if t.result != t.solo {
				c.Fail("interference", "interference:"+t.op.Kind+":"+mode, fmt.Sprintf("goroutine %d operation %d (%s) returned a different result when run concurrently with %d other goroutines (%s mode) than when run alone", g, i, t.op.String(), ng-1, mode),
					map[string]interface{}{"op": t.op.String(), "alone": short(t.solo, 300), "concurrent": short(t.result, 300)})
			}
		}
	}
}

// c20cold <paths...>: the first thing this process does is to use separate
// handles from several goroutines at once; results must be identical across
// goroutines that do the same thing.
func c20cold(args []string) int {
	if len(args) == 0 {
		return 3
	}
	const G = 8
	results := make([]string, G)
	var wg sync.WaitGroup
	start := make(chan struct{})
	for g := 0; g < G; g++ {
		wg.Add(1)
		go func(g int) {
			defer wg.Done()
			<-start
			path := args[g%len(args)]
			d, err := sqlittle.Open(path)
			if err != nil {
				results[g] = "open:" + err.Error()
				return
			}
			defer d.Close()
			low := d.VerifLow()
			out := ""
			if low.RLock() == nil {
				tabs, _ := low.Tables()
				low.RUnlock()
				for _, t := range tabs {
					if strings.HasPrefix(t, "sqlite_") {
						continue
					}
					cols, err := d.Columns(t)
					out += fmt.Sprintf("%s:%v:%v;", t, cols, err)
					n := 0
					err = d.Select(t, func(r sqlittle.Row) { n++ }, cols...)
					out += fmt.Sprintf("%d:%v;", n, err)
				}
			}
			results[g] = out
		}(g)
	}
	close(start)
	wg.Wait()
	for g := 0; g < G; g++ {
		if results[g] != results[g%len(args)] {
			fmt.Fprintf(os.Stderr, "cold start: goroutine %d got a different result than goroutine %d on the same file:\n  %s\n  %s\n", g, g%len(args), short(results[g], 400), short(results[g%len(args)], 400))
			return 5
		}
	}
	return 0
}

func init() {
	extraCmd("c20cold", c20cold)
	sim.Register(&sim.Prop{
		ID: "C20", Engine: "E-WORLD+E-RACE", Level: "exploration", Fn: runC20, NewEnv: NewEnv,
		Runs: map[string]int{"quick": 480, "thorough": 12000},
		Rule: "per run: 1-2 databases from the workload generator; 2-6 goroutines, each opening its own handles on one of the files and running 1-4 operations drawn from the whole read family (plus sql.Parse and db.Equals, which touch package-level state); two runs in three are lock-step: every goroutine parks at every pager event and callback invocation and the seeded scheduler releases one goroutine at a time in bursts of 1-8 events; one run in three is free-running (real parallelism, 3 repetitions, plus a database/sql pool with 4 concurrent queries); every operation's result (rows, names, schema, error) must equal its result when run alone; the whole check is built with -race: a data race report terminates the worker and is reported as a violation; evaluations = operations compared; distinct = distinct event logs",
		Real: append([]string{"unix file pager on real files, page cache mutex, package-level collation table and parser tables, database/sql pool; Go race detector"}, realAll...),
		Stub: []string{"none"},
		Assumptions: []string{"lock-step execution creates happens-before edges between all accesses, so the race detector is blind there: data races are looked for in the free-running third of the runs only, whose schedule is not replayable (the replay re-runs the seed; the report itself is sound)", "several handles on one file in one process lose their POSIX lock (C06's known finding); no writer is involved here, so results are unaffected"},
		MaxRunSecs: 300,
		DeathSig: func(tail string, hung bool) string {
			switch {
			case strings.Contains(tail, "DATA RACE"):
				site := "unknown"
				for _, l := range strings.Split(tail, "\n") {
					l = strings.TrimSpace(l)
					if strings.HasPrefix(l, "github.com/alicebob/sqlittle") {
						site = strings.TrimPrefix(strings.SplitN(l, "(", 2)[0], "github.com/alicebob/sqlittle")
						break
					}
				}
				return "data-race:" + strings.Trim(site, "/.")
			case hung:
				return "hang"
			case strings.Contains(tail, "fatal error:") || strings.Contains(tail, "panic:"):
				return "crash:" + panicSite(tail)
			}
			return ""
		},
		Vacuity: func(st map[string]int64, runs int, tier string) error {
			for _, p := range []string{"parallel-run", "lockstep-run"} {
				if st["probe."+p] == 0 {
					return fmt.Errorf("reach probe %q is zero", p)
				}
			}
			if !raceEnabled {
				return fmt.Errorf("the harness binary was not built with -race")
			}
			return nil
		},
	})
}

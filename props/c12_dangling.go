package props

import (
	"fmt"
	"path/filepath"
	"sort"
	"strings"

	"github.com/alicebob/sqlittle"

	"verif/ops"
	"verif/sim"
	"verif/sq"
)

// C12, "any structure is found to be corrupt": a database whose b-trees are all
// well formed but whose index does not match its table. Two tables with the same
// definition get different rows; then the root pages of their indexes are swapped
// in sqlite_master (PRAGMA writable_schema, done by real SQLite). The index of
// table A now holds the entries of table B: an entry whose rowid / primary key has
// no row in A is corruption the index-ordered selects run into mid-scan. They must
// deliver the rows of the entries before it and then return an error - never skip
// the entry, repeat a neighbour's row, or end quietly.
func runC12Dangling(c *sim.Ctx) {
	s := c.Src
	e := env(c)
	dir, cleanup := e.RunDir()
	defer cleanup()
	path := filepath.Join(dir, "db")
	u := []int{512, 1024, 4096}[s.Draw(3, "pagesize")]
	without := s.Chance(1, 2, "withoutrowid")
	na := 5 + s.Draw(300, "rows-a")
	// every id of 1..max is in A, in B, in both or in none
	max := na + s.Draw(na, "spread")
	type row struct {
		id, v int64
		pad  string
	}
	var a, b []row
	inA := map[int64]row{}
	nv := 1 + s.Draw(12, "distinct-v") // duplicates in the indexed column: equality runs
	dangFrom := s.Draw(max+1, "dangling-from") // below this id, B only holds ids A also has
	for id := int64(1); id <= int64(max); id++ {
		k := s.Draw(4, "membership")
		padlen := s.Draw(3, "padkind")
		pad := strings.Repeat("x", []int{0, 20, u / 3}[padlen])
		if k == 0 || k == 2 {
			r := row{id, int64(s.Draw(nv, "v")), fmt.Sprintf("a%d%s", id, pad)}
			a = append(a, r)
			inA[id] = r
		}
		if k == 2 || (k == 1 && int(id) >= dangFrom) {
			b = append(b, row{id, int64(s.Draw(nv, "v")), fmt.Sprintf("b%d%s", id, pad)})
		}
	}
	if len(a) == 0 || len(b) == 0 {
		c.Inc("dangling_degenerate", 1)
		return
	}
	if err := e.W.Open("d", path, fmt.Sprintf("PRAGMA page_size=%d", u)); err != nil {
		c.Troublef("open: %v", err)
	}
	ex := func(q string) {
		if r, err := e.W.Exec("d", q); err != nil || !r.OK {
			c.Troublef("%s: %v %v", q, err, r)
		}
	}
	tail := ""
	if without {
		tail = " WITHOUT ROWID"
	}
	for _, t := range []string{"ta", "tb"} {
		ex(fmt.Sprintf("CREATE TABLE %s (id INTEGER PRIMARY KEY, v INTEGER, pad TEXT)%s", t, tail))
		ex(fmt.Sprintf("CREATE INDEX %s_v ON %s (v)", t, t))
	}
	ex("BEGIN")
	for _, r := range a {
		ex(fmt.Sprintf("INSERT INTO ta VALUES (%d, %d, '%s')", r.id, r.v, r.pad))
	}
	for _, r := range b {
		ex(fmt.Sprintf("INSERT INTO tb VALUES (%d, %d, '%s')", r.id, r.v, r.pad))
	}
	ex("COMMIT")
	rows, _, err := e.W.Query("d", "SELECT name, rootpage FROM sqlite_master WHERE name IN ('ta_v', 'tb_v')")
	if err != nil || len(rows) != 2 {
		c.Troublef("root pages: %v %v", err, rows)
	}
	root := map[string]int64{}
	for _, r := range rows {
		n := ""
		switch x := r[0].(type) {
		case string:
			n = x
		case []byte:
			n = string(x)
		}
		root[n], _ = r[1].(int64)
	}
	ex("PRAGMA writable_schema=ON")
	ex(fmt.Sprintf("UPDATE sqlite_master SET rootpage = CASE name WHEN 'ta_v' THEN %d ELSE %d END WHERE name IN ('ta_v', 'tb_v')", root["tb_v"], root["ta_v"]))
	e.W.CloseConn("d")
	c.Log.Add("sim", "dangling", "u=%d without=%v a=%d b=%d distinct_v=%d", u, without, len(a), len(b), nv)
	c.Note("tables ta (%d rows) and tb (%d rows), same definition%s; index root pages swapped: ta_v holds tb's entries", len(a), len(b), tail)
	c.Sample = map[string]interface{}{"page_size": u, "without_rowid": without, "rows_a": len(a), "rows_b": len(b)}

	// the entries ta_v now holds, in index order (v, id)
	ent := append([]row{}, b...)
	sort.Slice(ent, func(i, j int) bool {
		if ent[i].v != ent[j].v {
			return ent[i].v < ent[j].v
		}
		return ent[i].id < ent[j].id
	})
	d, err := sqlittle.Open(path)
	if err != nil {
		c.Troublef("sqlittle.Open: %v", err)
	}
	defer d.Close()
	cols := []string{"id", "v", "pad"}
	judge := func(op ops.Op, entries []row) {
		var want [][]sq.Val
		dangling := false
		for _, en := range entries {
			r, ok := inA[en.id]
			if !ok {
				dangling = true
				break
			}
			want = append(want, []sq.Val{r.id, r.v, r.pad})
		}
		r := ops.Run(d, op, nil)
		c.Eval(1)
		if r.Panic != nil {
			c.Inc("panics_under_fault", 1) // C05 territory
			return
		}
		detail := map[string]interface{}{"op": op.String(), "entries": len(entries), "rows_before_first_dangling_entry": len(want), "dangling": dangling, "rows_delivered": len(r.Rows), "err": fmt.Sprint(r.Err)}
		if dangling {
			c.Fault("index-entry-without-row")
			if r.Err == nil {
				c.Fail("silent-failure", "silent:"+op.Kind+":dangling-index-entry",
					fmt.Sprintf("%s: the index holds an entry whose row does not exist (after %d good entries of %d); the call returned nil error and %d rows", op.String(), len(want), len(entries), len(r.Rows)), detail)
				return
			}
			if ok, at := prefixOf(r.Rows, want); !ok {
				detail["first_bad_row"] = at
				c.Fail("wrong-rows-under-fault", "notprefix:"+op.Kind+":dangling-index-entry",
					fmt.Sprintf("%s: rows delivered before the error are not the rows of the entries preceding the dangling one (row %d of %d delivered, %d expected at most)", op.String(), at, len(r.Rows), len(want)), detail)
				return
			}
			c.Probe("dangling-entry-reported")
			return
		}
		// every entry has a row: a complete, error-free result
		if r.Err != nil {
			c.Inc("consistent_subset_error", 1)
			c.Fail("spurious-error", "error:"+op.Kind+":consistent-entries", fmt.Sprintf("%s: every index entry has a row, yet: %v", op.String(), r.Err), detail)
			return
		}
		if eq, at := rowsEq(want, r.Rows, false); !eq {
			detail["first_bad_row"] = at
			c.Fail("wrong-rows-under-fault", "rows:"+op.Kind+":consistent-entries", fmt.Sprintf("%s: rows differ from the table rows of the index entries at row %d", op.String(), at), detail)
			return
		}
		c.Probe("consistent-entries-read")
	}
	judge(ops.Op{Kind: "ixselect", Table: "ta", Index: "ta_v", Cols: cols}, ent)
	for v := int64(0); v < int64(nv); v++ {
		var sub []row
		for _, en := range ent {
			if en.v == v {
				sub = append(sub, en)
			}
		}
		judge(ops.Op{Kind: "ixeq", Table: "ta", Index: "ta_v", Cols: cols, Key: sqlittle.Key{v}}, sub)
	}
	c.Nontrivial = true
	c.State("dangling", without, u, len(ent) > 50)
}

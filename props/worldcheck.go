package props

import (
	"verif/fold"
	"fmt"
	"os"
	"strings"

	"github.com/alicebob/sqlittle"

	"verif/ops"
	"verif/pagewalk"
	"verif/sim"
	"verif/sq"
	"verif/world"
)

// worldRun drives a writer history and calls check after every commit.
type worldRun struct {
	prof  world.Profile
	steps int
	check func(c *sim.Ctx, w *world.World)
	final func(c *sim.Ctx, w *world.World) // after the last commit, files still present
}

func (wr *worldRun) run(c *sim.Ctx) *world.World {
	e := env(c)
	dir, cleanup := e.RunDir()
	defer cleanup()
	w := world.New(c, e.W, dir, wr.prof)
	defer w.Close()
	w.OnCommit = func() {
		if w.Legacy && w.SchemaFormat() < 2 {
			// schema format 1: sqlittle refuses the file (C15 leaves formats 0/1 open)
			c.Probe("legacy-format-1-phase")
			return
		}
		if w.Legacy {
			c.Probe("legacy-format-2-3-checked")
		}
		if w.Snap != nil && len(w.Snap.Tables) > 0 && wr.check != nil {
			wr.check(c, w)
		}
	}
	w.Build()
	for i := 0; i < wr.steps; i++ {
		w.Step()
	}
	if wr.final != nil && w.Snap != nil && len(w.Snap.Tables) > 0 && !(w.Legacy && w.SchemaFormat() < 2) {
		wr.final(c, w)
	}
	return w
}

// openFresh opens a new handle through the shipped entry point.
func openFresh(c *sim.Ctx, path string, cache int) *sqlittle.DB {
	d, err := sqlittle.Open(path)
	if err != nil {
		c.Fail("open-failed", "open-error", fmt.Sprintf("sqlittle.Open failed on a database SQLite just committed: %v", err), nil)
	}
	if cache > 0 {
		d.VerifLow().VerifSetCachePages(cache)
	}
	return d
}

// accepted reports whether sqlittle accepts the table's definition. A Schema()
// failure counts as "definition not interpreted" only when the error is one of
// the parser's or the schema builder's own rejections; anything else on a
// database SQLite just wrote (I/O, "corrupted", EOF ...) is returned as bad.
func accepted(d *sqlittle.DB, table string) (bool, error) {
	r := ops.Run(d, ops.Op{Kind: "schema", Table: table, Lock: true}, nil)
	if r.Panic != nil {
		return false, fmt.Errorf("panic: %v", r.Panic)
	}
	return r.Err == nil, r.Err
}

func isDefinitionRejection(err error) bool {
	if err == nil {
		return false
	}
	m := err.Error()
	for _, k := range []string{"syntax error", "unsupported number", "unsupported: AS", "no terminating", "unexpected char", "unsupported CREATE TABLE", "invalid object definition", "no CREATE TABLE attached"} {
		if strings.Contains(m, k) {
			return true
		}
	}
	return false
}

// acceptedStrict is accepted() plus the requirement that a refusal is about the
// definition: reading the schema of a well-formed database must not fail otherwise.
func acceptedStrict(c *sim.Ctx, d *sqlittle.DB, table string) bool {
	acc, err := accepted(d, table)
	if !acc && !isDefinitionRejection(err) {
		c.Fail("schema-unreadable", "schema-read-error", fmt.Sprintf("Schema(%s) failed on a database SQLite just committed, and not because of the definition: %v", table, err), map[string]interface{}{"table": table})
	}
	return acc
}

// project computes what SQLite returns for `SELECT cols FROM t` (in table
// order) from the snapshot. ok=false when SQLite would reject a column.
func project(t *sq.Table, cols []string) (rows [][]sq.Val, ok bool) {
	idx := make([]int, len(cols))
	for i, cn := range cols {
		k := t.ColIndex(cn)
		if k < 0 {
			l := fold.Lower(cn)
			if !t.WithoutRowid && (l == "rowid" || l == "oid" || l == "_rowid_") {
				k = -1
			} else {
				return nil, false
			}
		}
		idx[i] = k
	}
	rows = make([][]sq.Val, len(t.Rows))
	for r, row := range t.Rows {
		out := make([]sq.Val, len(cols))
		for i, k := range idx {
			if k == -1 {
				out[i] = t.Rowids[r]
			} else {
				out[i] = row[k]
			}
		}
		rows[r] = out
	}
	return rows, true
}

func projectRow(t *sq.Table, r int, cols []string) []sq.Val {
	out := make([]sq.Val, len(cols))
	for i, cn := range cols {
		k := t.ColIndex(cn)
		if k < 0 {
			out[i] = t.Rowids[r]
		} else {
			out[i] = t.Rows[r][k]
		}
	}
	return out
}

// drawCols draws a column list: subset, permutation, repetitions, rowid aliases, case variants.
func drawCols(s *sim.Src, t *sq.Table) []string {
	names := t.ColNames()
	n := 1 + s.Draw(len(names)+2, "ncols")
	var out []string
	for i := 0; i < n; i++ {
		switch s.Weighted([]int{12, 2, 1}, "colkind") {
		case 0:
			cn := names[s.Draw(len(names), "col")]
			if s.Chance(1, 6, "case") {
				if s.Chance(1, 2, "upper") {
					cn = fold.Upper(cn)
				} else {
					cn = fold.Lower(cn)
				}
			}
			out = append(out, cn)
		case 1:
			out = append(out, []string{"rowid", "oid", "_rowid_", "ROWID", "Oid", "_ROWID_"}[s.Draw(6, "rowidname")])
		default:
			out = append(out, "nosuchcolumn")
		}
	}
	return out
}

func fmtRows(rows [][]sq.Val, at int) string {
	if at < 0 || at >= len(rows) {
		return "<none>"
	}
	return sq.FmtRow(rows[at])
}

// treeProbes records reach probes about the file's b-trees (page walker; aiming only).
func treeProbes(c *sim.Ctx, w *world.World) {
	img, err := os.ReadFile(w.Path)
	if err != nil {
		return
	}
	u := pagewalk.PageSize(img)
	if u == 0 {
		return
	}
	for _, m := range w.Snap.Master {
		if m.Rootpage <= 0 {
			continue
		}
		tr := pagewalk.Shape(img, u, m.Rootpage)
		if m.Type == "table" {
			if tr.Depth >= 2 {
				c.Probe("table-tree-depth>=2")
			}
			if tr.Depth >= 3 {
				c.Probe("table-tree-depth>=3")
			}
			if tr.Depth >= 4 {
				c.Probe("table-tree-depth>=4")
			}
		} else {
			if tr.Depth >= 2 {
				c.Probe("index-tree-depth>=2")
			}
			if tr.Depth >= 3 {
				c.Probe("index-tree-depth>=3")
			}
			if tr.Depth >= 4 {
				c.Probe("index-tree-depth>=4")
			}
		}
	}
	c.State("pages", len(img)/u > 100, u)
}

// rowsEqModDefaults compares like rowsEq(relaxed) but does not count the
// default-affinity difference (C01's known finding, about DEFAULT values, not
// about the property at hand) as a difference; it is counted instead.
func rowsEqModDefaults(c *sim.Ctx, t *sq.Table, cols []string, want, got [][]sq.Val) (bool, int) {
	n := len(want)
	if len(got) < n {
		n = len(got)
	}
	for i := 0; i < n; i++ {
		if len(want[i]) != len(got[i]) {
			return false, i
		}
		for j := range want[i] {
			if valEqRelaxed(want[i][j], got[i][j]) {
				continue
			}
			if j < len(cols) {
				if cl := classify(t, cols[j], want[i][j], got[i][j]); cl == "default-affinity" || cl == "default-true-false" {
					c.Inc("default_literal_findings_seen", 1)
					continue
				}
			}
			return false, i
		}
	}
	if len(want) != len(got) {
		return false, n
	}
	return true, -1
}

package props

import (
	"os"
	"syscall"
)

func inodeOf(st os.FileInfo) uint64 {
	if s, ok := st.Sys().(*syscall.Stat_t); ok {
		return s.Ino
	}
	return 0
}

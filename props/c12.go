package props

import (
	"encoding/binary"
	"fmt"
	"sort"
	"hash/fnv"
	"os"

	"verif/ops"
	"verif/pagewalk"
	"verif/pg"
	"verif/sim"
	"verif/sq"
	"verif/world"
)

// C12 — read failures are reported, never turned into silently missing rows.
// Engine E-PAGE: the image SQLite wrote is served from a simulated disk; for every
// operation a fault is injected at the k-th page read for every k in 1..n.

func buildImage(c *sim.Ctx, prof world.Profile, steps int) (img []byte, snap *sq.Snapshot, pageSize int) {
	e := env(c)
	dir, cleanup := e.RunDir()
	defer cleanup()
	w := world.New(c, e.W, dir, prof)
	w.Build()
	for i := 0; i < steps; i++ {
		w.Step()
	}
	snap = w.Snap
	pageSize = w.PageSz
	w.Close()
	img, err := os.ReadFile(w.Path)
	if err != nil {
		c.Troublef("read image: %v", err)
	}
	return
}

var cacheKnob = []int{100, 1, 2, 5, 20}

func runC12(c *sim.Ctx) {
	s := c.Src
	prof := world.Profile{PageSizes: []int{512, 1024, 4096, 512}, MaxTables: 2, RowsLo: 5, RowsHi: 60, Fancy: 2,
		WithoutRow: 3, IndexesHi: 2, LongKeys: 3, Boundary: true, JournalMode: []string{"DELETE"}}
	if c.Tier == "thorough" {
		prof.RowsHi = 250
		prof.MaxTables = 3
	}
	if s.Chance(1, 5, "dangling-index") {
		runC12Dangling(c)
		return
	}
	img, snap, u := buildImage(c, prof, s.Draw(4, "steps"))
	roots := []int{1}
	for _, m := range snap.Master {
		if m.Rootpage > 0 {
			roots = append(roots, m.Rootpage)
		}
	}
	btreePages := pagewalk.BtreePages(img, u, roots)
	family := readFamily(s, snap, true)
	cache := cacheKnob[s.Draw(len(cacheKnob), "cache")]
	c.Log.Add("sim", "image", "bytes=%d ops=%d cache=%d", len(img), len(family), cache)
	c.Sample = map[string]interface{}{"image_bytes": len(img), "operations": len(family), "cache_pages": cache, "tables": len(snap.Tables)}
	maxK := 400
	execBudget := 30000 // faulted executions per run; beyond it every operation is sampled at ~24 positions
	if c.Tier == "thorough" {
		maxK = 4000
		execBudget = 90000
	}

	open := func(m *pg.Mem) (h handle, err error) {
		d, err := ops.OpenPager(m, "")
		if err != nil {
			return handle{}, err
		}
		d.VerifLow().VerifSetCachePages(cache)
		return handle{d, m}, nil
	}

	bases := map[int]ops.Result{}
	defer func() {
		if c.Viol == nil {
			c12ChainCuts(c, img, u, btreePages, family, bases, open)
		}
	}()
	for oi, op := range family {
		// fault-free execution: result and number of reads
		m0 := &pg.Mem{Image: img}
		h0, err := open(m0)
		if err != nil {
			c.Troublef("fault-free open failed: %v", err)
		}
		m0.ResetOp()
		base := ops.Run(h0.d, op, nil)
		n := m0.Reads
		if base.Panic != nil {
			// not this property's business (C05); skip the op
			c.Inc("skipped_ops_panic", 1)
			continue
		}
		if base.Err != nil {
			c.Inc("skipped_ops_baseline_error", 1)
			c.Log.Add("sim", "op", "%d %s baseline-error", oi, op.Kind)
			continue
		}
		bases[oi] = base
		// the fault-free result must itself be stable on a second handle
		c.Log.Add("sim", "op", "%d %s reads=%d rows=%d", oi, op.String(), n, len(base.Rows))
		c.Note("op %s: %d page reads, %d rows fault-free", op.String(), n, len(base.Rows))
		if n > 1 {
			c.Nontrivial = true
		}
		outcomes := fnv.New64a()
		step := 1
		if n > maxK {
			step = n/maxK + 1
		}
		if int(c.Stats["eval"]) > execBudget && n > 24 {
			step = n/24 + 1
			c.Inc("ops_sampled_after_run_budget", 1)
		}
		for k := 1; k <= n; k += step {
			if step > 1 && k > 64 {
				// sample inside the stride so that all residues are visited over runs
				k += s.Draw(step, "koff")
				if k > n {
					break
				}
			}
			for kind := 0; kind < 3; kind++ {
				sticky := (k+kind)%2 == 0
				m := &pg.Mem{Image: img, FailKind: kind, FailSticky: sticky, BtreePages: btreePages}
				h, err := open(m)
				if err != nil {
					c.Troublef("open failed: %v", err)
				}
				m.ResetOp()
				m.FailAt = k
				r := ops.Run(h.d, op, nil)
				c.Eval(1)
				kname := []string{"read-error", "short-read", "bad-page-type"}[kind]
				if m.Fired {
					c.Fault(kname)
				} else if kind == 2 {
					c.Inc("bad_page_type_not_applicable", 1) // page 1 or an overflow page
				} else {
					c.Inc("fault_not_fired", 1)
				}
				if r.Panic != nil {
					c.Inc("panics_under_fault", 1) // C05 territory
					continue
				}
				fmt.Fprintf(outcomes, "%d/%d/%v/%d;", k, kind, r.Err != nil, len(r.Rows))
				detail := map[string]interface{}{"op": op.String(), "fault": kname, "k": k, "of": n, "sticky": sticky,
					"rows_delivered": len(r.Rows), "rows_fault_free": len(base.Rows), "cache_pages": cache}
				if m.Fired && r.Err == nil {
					c.Fail("silent-failure", "silent:"+op.Kind+":"+kname,
						fmt.Sprintf("%s: %s at read %d/%d was swallowed: nil error, %d of %d rows", op.String(), kname, k, n, len(r.Rows), len(base.Rows)), detail)
				}
				if ok, at := prefixOf(r.Rows, base.Rows); !ok {
					detail["first_bad_row"] = at
					c.Fail("wrong-rows-under-fault", "notprefix:"+op.Kind+":"+kname,
						fmt.Sprintf("%s: rows delivered under %s at read %d/%d are not a prefix of the fault-free result (row %d)", op.String(), kname, k, n, at), detail)
				}
				if r.CallAfterStop > 0 {
					c.Fail("callback-after-stop", "cbafter:"+op.Kind, "callback invoked after stop", detail)
				}
				// transient fault: the handle must recover or keep failing, never succeed short
				if !sticky {
					m.FailAt = 0
					m.ResetOp()
					r2 := ops.Run(h.d, op, nil)
					c.Eval(1)
					if r2.Panic == nil && r2.Err == nil {
						if ok, at := rowsEq(base.Rows, r2.Rows, false); !ok || r2.NilRow != base.NilRow || !strsEq(base.Strs, r2.Strs) {
							detail["first_bad_row"] = at
							detail["rows_second_attempt"] = len(r2.Rows)
							c.Fail("short-success-after-fault", "aftermath:"+op.Kind+":"+kname,
								fmt.Sprintf("%s: after a transient %s at read %d/%d the next fault-free call on the same handle succeeded with a different result (%d vs %d rows)", op.String(), kname, k, n, len(r2.Rows), len(base.Rows)), detail)
						}
					}
				}
			}
		}
		c.Log.Add("sim", "faults", "%d outcomes=%x", oi, outcomes.Sum64())
		c.State(op.Kind, n > 8, len(base.Rows) > 0, cache)

		// lock failure: error, no callback
		ml := &pg.Mem{Image: img}
		hl, err := open(ml)
		if err == nil {
			ml.LockFail = true
			r := ops.Run(hl.d, op, nil)
			c.Eval(1)
			c.Fault("lock-fail")
			if r.Panic == nil && (r.Err == nil || r.Calls > 0) {
				c.Fail("lock-failure-ignored", "lockfail:"+op.Kind,
					fmt.Sprintf("%s: RLock failed but the call returned err=%v after %d rows", op.String(), r.Err, r.Calls), map[string]interface{}{"op": op.String()})
			}
		}
	}
}

func strsEq(a, b []string) bool {
	if len(a) != len(b) {
		return false
	}
	for i := range a {
		if a[i] != b[i] {
			return false
		}
	}
	return true
}

func prefixOf(got, full [][]sq.Val) (bool, int) {
	if len(got) > len(full) {
		return false, len(full)
	}
	for i := range got {
		if !rowEq(full[i], got[i], false) {
			return false, i
		}
	}
	return true, -1
}

func init() {
	sim.Register(&sim.Prop{
		ID: "C12", Engine: "E-PAGE", Level: "fault_enumeration", Fn: runC12, NewEnv: NewEnv,
		Runs: map[string]int{"quick": 256, "thorough": 2400},
		Rule: "per run: a database written by real SQLite through a drawn history (page size 512/1024/4096, rowid + WITHOUT ROWID tables, indexes, overflow rows) is served from a simulated disk; for EVERY read operation (8 high-level + low-level scans, keys drawn from stored values) first a fault-free execution (n reads), then one faulted execution for every k in 1..n (stride-sampled above 400/4000) x {I/O error, short read, b-tree page arriving with an invalid page type} x {transient, permanent}, plus lock failure; one run in five instead builds a well-formed database whose index disagrees with its table (entries without rows) and requires the index-ordered and equality selects to deliver the rows up to the first such entry and then an error; evaluations = faulted executions; a run is non-trivial when some operation performs >1 page read; distinct = distinct event logs",
		Real: append([]string{"btree/record/schema/select code paths on the in-memory simulated disk"}, realAll...),
		Stub: []string{"file pager replaced by pg.Mem (same copy semantics, same short-read-at-EOF behaviour); POSIX locks replaced by counters"},
		Assumptions: []string{"a fault the reader can detect = pager returns an error (I/O error) or a zero-padded buffer with io.EOF (what mmap.ReaderAt does)", "operations that already fail fault-free (definitions sqlittle rejects) are skipped and counted"},
		MaxRunSecs: 1200, // a thorough run makes up to ~10^5 faulted executions; on a loaded machine that takes minutes
		Vacuity: func(st map[string]int64, runs int, tier string) error {
			fired := st["fault.read-error"] + st["fault.short-read"]
			if st["fault.bad-page-type"] == 0 || st["probe.dangling-entry-reported"] == 0 {
				return fmt.Errorf("bad-page-type fired %d times, dangling entries reported %d times", st["fault.bad-page-type"], st["probe.dangling-entry-reported"])
			}
			if fired == 0 || st["fault_not_fired"]*100 > fired {
				return fmt.Errorf("faults fired in only %d of %d executions", fired, fired+st["fault_not_fired"])
			}
			return nil
		},
	})
}

// c12ChainCuts: corruption the reader can detect by counting - an overflow chain that
// ends before it has delivered the bytes its cell claims (the next-page pointer of a
// page in the middle of a chain is zero). Every operation must then either fail, having
// delivered a prefix of its fault-free result, or not be affected at all; it may not
// succeed with other content.
func c12ChainCuts(c *sim.Ctx, img []byte, u int, btreePages map[int]bool, family []ops.Op, bases map[int]ops.Result, open func(m *pg.Mem) (handle, error)) {
	s := c.Src
	np := len(img) / u
	var cuts []int // page numbers whose next pointer can be zeroed
	seen := map[int]bool{}
	for no := range btreePages {
		p := pagewalk.Parse(img, u, no)
		if !p.Valid {
			continue
		}
		for _, cell := range p.Cells {
			if cell.OvflOff < 0 || cell.Ovfl < 1 || cell.Ovfl > np {
				continue
			}
			var chain []int
			for q := cell.Ovfl; q >= 1 && q <= np && len(chain) < 64 && !seen[q]; {
				seen[q] = true
				chain = append(chain, q)
				q = int(binary.BigEndian.Uint32(img[(q-1)*u:]))
			}
			if len(chain) >= 2 {
				cuts = append(cuts, chain[:len(chain)-1]...)
			}
		}
	}
	if len(cuts) == 0 {
		return
	}
	sort.Ints(cuts)
	for k := 0; k < 3 && k < len(cuts); k++ {
		q := cuts[s.Draw(len(cuts), "chaincut")]
		mut := append([]byte(nil), img...)
		copy(mut[(q-1)*u:], []byte{0, 0, 0, 0})
		c.Fault("overflow-chain-cut")
		for oi, op := range family {
			base, ok := bases[oi]
			if !ok {
				continue
			}
			m := &pg.Mem{Image: mut}
			h, err := open(m)
			if err != nil {
				continue
			}
			m.ResetOp()
			r := ops.Run(h.d, op, nil)
			c.Eval(1)
			if r.Panic != nil {
				c.Inc("panics_under_fault", 1) // C05 territory
				continue
			}
			detail := map[string]interface{}{"op": op.String(), "overflow_page": q, "rows_delivered": len(r.Rows), "rows_fault_free": len(base.Rows)}
			if r.Err == nil {
				if eq, at := rowsEq(base.Rows, r.Rows, false); !eq || r.NilRow != base.NilRow {
					detail["first_bad_row"] = at
					c.Fail("silent-failure", "silent:"+op.Kind+":overflow-chain-cut",
						fmt.Sprintf("%s: the overflow chain through page %d ends early (next pointer 0) - the call returned nil error and content that differs from the intact file at row %d", op.String(), q, at), detail)
				}
				continue
			}
			c.Probe("chain-cut-reported")
			if ok, at := prefixOf(r.Rows, base.Rows); !ok {
				detail["first_bad_row"] = at
				c.Fail("wrong-rows-under-fault", "notprefix:"+op.Kind+":overflow-chain-cut",
					fmt.Sprintf("%s: rows delivered before the error are not a prefix of the intact result (row %d)", op.String(), at), detail)
			}
		}
	}
}

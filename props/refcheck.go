package props

import (
	"fmt"
	"math"
	"os"
	"sort"

	"verif/gen"
	"verif/refcmp"
	"verif/sq"
)

// GridValues is the value grid used for oracle validation.
func GridValues() []sq.Val {
	var out []sq.Val
	out = append(out, nil)
	for _, v := range gen.IntGrid() {
		out = append(out, v)
	}
	for _, v := range gen.RealGrid() {
		out = append(out, v)
	}
	for _, v := range gen.TextGrid() {
		out = append(out, v)
	}
	for _, v := range gen.BlobGrid() {
		out = append(out, append([]byte{}, v...))
	}
	// numbers that are equal across classes
	for _, v := range []int64{0, 1, 3, -3, 127, 128, 9007199254740992, 9007199254740993, math.MaxInt64, math.MinInt64} {
		out = append(out, float64(v))
	}
	return out
}

// refcheck validates the reference comparator against real SQLite: total order
// and equality classes over the value grid, for the three collations.
func refcheck(args []string) int {
	w, err := sq.Start()
	if err != nil {
		fmt.Fprintln(os.Stderr, "HARNESS-TROUBLE", err)
		return 2
	}
	defer w.Close()
	if err := w.Open("m", ":memory:"); err != nil {
		fmt.Fprintln(os.Stderr, "HARNESS-TROUBLE", err)
		return 2
	}
	vals := GridValues()
	w.Exec("m", "CREATE TABLE g(id INTEGER PRIMARY KEY, v)")
	for i, v := range vals {
		var r *sq.Resp
		if s, ok := v.(string); ok {
			r, err = w.Exec("m", "INSERT INTO g VALUES (?, CAST(? AS TEXT))", int64(i), []byte(s))
		} else {
			r, err = w.Exec("m", "INSERT INTO g VALUES (?, ?)", int64(i), v)
		}
		if err != nil || !r.OK {
			fmt.Fprintln(os.Stderr, "HARNESS-TROUBLE insert", err, r)
			return 2
		}
	}
	// stored values must round-trip exactly
	rows, _, err := w.Typed("m", []string{"v"}, "FROM g ORDER BY id")
	if err != nil || len(rows) != len(vals) {
		fmt.Fprintln(os.Stderr, "HARNESS-TROUBLE readback", err)
		return 2
	}
	for i := range vals {
		if !valEq(vals[i], rows[i][0]) {
			fmt.Fprintf(os.Stderr, "HARNESS-TROUBLE value %d did not round-trip: %s -> %s\n", i, sq.FmtVal(vals[i]), sq.FmtVal(rows[i][0]))
			return 2
		}
	}
	bad := 0
	pairs := 0
	for _, coll := range []string{"BINARY", "NOCASE", "RTRIM"} {
		for _, desc := range []bool{false, true} {
			dir := "ASC"
			if desc {
				dir = "DESC"
			}
			got, _, err := w.Query("m", fmt.Sprintf("SELECT id FROM g ORDER BY v COLLATE %s %s, id", coll, dir))
			if err != nil {
				fmt.Fprintln(os.Stderr, "HARNESS-TROUBLE", err)
				return 2
			}
			idx := make([]int, len(vals))
			for i := range idx {
				idx[i] = i
			}
			sort.SliceStable(idx, func(a, b int) bool {
				c := refcmp.Compare(vals[idx[a]], vals[idx[b]], coll)
				if desc {
					c = -c
				}
				if c != 0 {
					return c < 0
				}
				return idx[a] < idx[b]
			})
			for i := range idx {
				if int64(idx[i]) != got[i][0].(int64) {
					fmt.Fprintf(os.Stderr, "reference comparator disagrees with SQLite (ORDER BY v COLLATE %s %s) at position %d: SQLite id %v (%s), reference id %d (%s)\n",
						coll, dir, i, got[i][0], sq.FmtVal(vals[got[i][0].(int64)]), idx[i], sq.FmtVal(vals[idx[i]]))
					bad++
					break
				}
			}
		}
		eq, _, err := w.Query("m", fmt.Sprintf("SELECT a.id, b.id FROM g a, g b WHERE a.v COLLATE %s IS b.v ORDER BY a.id, b.id", coll))
		if err != nil {
			fmt.Fprintln(os.Stderr, "HARNESS-TROUBLE", err)
			return 2
		}
		want := map[[2]int64]bool{}
		for _, r := range eq {
			want[[2]int64{r[0].(int64), r[1].(int64)}] = true
		}
		for i := range vals {
			for j := range vals {
				pairs++
				e := refcmp.Compare(vals[i], vals[j], coll) == 0
				if e != want[[2]int64{int64(i), int64(j)}] {
					if bad < 20 {
						fmt.Fprintf(os.Stderr, "reference comparator disagrees with SQLite on equality under %s: %s vs %s: SQLite %v, reference %v\n", coll, sq.FmtVal(vals[i]), sq.FmtVal(vals[j]), !e, e)
					}
					bad++
				}
			}
		}
	}
	if bad > 0 {
		fmt.Fprintf(os.Stderr, "HARNESS-TROUBLE refcheck: %d disagreements\n", bad)
		return 2
	}
	fmt.Printf("refcheck: reference comparator agrees with SQLite %s on %d values, %d ordered pairs x 3 collations, ASC and DESC orders\n", w.Ver, len(vals), pairs/3)
	return 0
}

func init() { extraCmd("refcheck", refcheck) }

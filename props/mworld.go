package props

import (
	"fmt"
	"os"
	"path/filepath"
	"sort"
	"strconv"
	"strings"
	"time"

	"verif/agent"
	"verif/sim"
	"verif/sq"
	"verif/world"
)

// Multi-process lock-step world: sqlittle handles live in agent processes,
// SQLite writers in python processes (one connection per process), the kernel's
// POSIX lock table is the ground truth, read from /proc/locks after every step.

const (
	pendingByte  = 0x40000000
	reservedByte = 0x40000001
	sharedFirst  = 0x40000002
	sharedLast   = 0x40000002 + 510 - 1
)

type MEnv struct {
	*Env
	W2     *sq.Worker // second writer process
	Agents []*agent.Client
}

func NewMEnv(tier string) (interface{}, func(), error) {
	e0, closer0, err := NewEnv(tier)
	if err != nil {
		return nil, nil, err
	}
	me := &MEnv{Env: e0.(*Env)}
	w2, err := sq.Start()
	if err != nil {
		closer0()
		return nil, nil, err
	}
	me.W2 = w2
	return me, func() {
		for _, a := range me.Agents {
			a.Close()
		}
		w2.Close()
		closer0()
	}, nil
}

type klock struct {
	pid   int
	write bool
	start int64
	end   int64 // inclusive; -1 = EOF
}

func (l klock) covers(a, b int64) bool {
	return l.start <= a && (l.end == -1 || l.end >= b)
}
func (l klock) overlaps(a, b int64) bool {
	return l.start <= b && (l.end == -1 || l.end >= a)
}

// procLocks reads the kernel's POSIX lock table for the file: union of three passes.
func procLocks(path string) ([]klock, error) {
	st, err := os.Stat(path)
	if err != nil {
		return nil, err
	}
	ino := strconv.FormatUint(inodeOf(st), 10)
	seen := map[klock]bool{}
	var out []klock
	for pass := 0; pass < 3; pass++ {
		b, err := readProcLocks()
		if err != nil {
			return nil, err
		}
		for _, l := range strings.Split(string(b), "\n") {
			f := strings.Fields(l)
			if len(f) > 1 && f[1] == "->" {
				f = append(f[:1], f[2:]...)
			}
			if len(f) < 8 || f[1] != "POSIX" || !strings.HasSuffix(f[5], ":"+ino) {
				continue
			}
			pid, _ := strconv.Atoi(f[4])
			s, _ := strconv.ParseInt(f[6], 10, 64)
			e := int64(-1)
			if f[7] != "EOF" {
				e, _ = strconv.ParseInt(f[7], 10, 64)
			}
			k := klock{pid: pid, write: f[3] == "WRITE", start: s, end: e}
			if !seen[k] {
				seen[k] = true
				out = append(out, k)
			}
		}
	}
	sort.Slice(out, func(i, j int) bool {
		a, b := out[i], out[j]
		if a.pid != b.pid {
			return a.pid < b.pid
		}
		if a.start != b.start {
			return a.start < b.start
		}
		return !a.write && b.write
	})
	return out, nil
}

// readProcLocks reads /proc/locks completely. The kernel hands out at most one
// seq_file buffer (a few KiB) per read(), and the list can change between two
// read() calls while OTHER processes lock and unlock, so one pass may skip or
// repeat lines. The locks on the file of the current run do not change while we
// read (lock-step: all our actors are parked), hence every line we see for our
// inode is true; callers take the union of several passes to avoid missing one.
func readProcLocks() ([]byte, error) {
	f, err := os.Open("/proc/locks")
	if err != nil {
		return nil, err
	}
	defer f.Close()
	var out []byte
	buf := make([]byte, 1<<16)
	for {
		n, err := f.Read(buf)
		out = append(out, buf[:n]...)
		if n == 0 || err != nil {
			break
		}
	}
	return out, nil
}

type lockView struct {
	locks []klock
}

func (v lockView) sharedHeldBy(pid int) bool {
	for _, l := range v.locks {
		if l.pid == pid && l.covers(sharedFirst, sharedLast) {
			return true
		}
	}
	return false
}

// anything of pid on the shared range or the pending byte
func (v lockView) anyOn(pid int) []string {
	var out []string
	for _, l := range v.locks {
		if l.pid == pid && (l.overlaps(sharedFirst, sharedLast) || l.overlaps(pendingByte, pendingByte)) {
			out = append(out, fmt.Sprintf("%s %d..%d", map[bool]string{true: "WRITE", false: "READ"}[l.write], l.start, l.end))
		}
	}
	return out
}

// writer state of pid in SQLite's terms, from the kernel table
func (v lockView) sqliteState(pid int) string {
	pending, reserved, exclusive, shared := false, false, false, false
	for _, l := range v.locks {
		if l.pid != pid {
			continue
		}
		if l.write && l.overlaps(pendingByte, pendingByte) {
			pending = true
		}
		if l.write && l.overlaps(reservedByte, reservedByte) {
			reserved = true
		}
		if l.overlaps(sharedFirst, sharedLast) {
			if l.write {
				exclusive = true
			} else {
				shared = true
			}
		}
	}
	switch {
	case exclusive:
		return "EXCLUSIVE"
	case pending:
		return "PENDING"
	case reserved:
		return "RESERVED"
	case shared:
		return "SHARED"
	}
	return "UNLOCKED"
}

// blocksReaders: some pid other than `except` holds PENDING or EXCLUSIVE
func (v lockView) blocksReaders(except int) (bool, string) {
	why := ""
	for _, l := range v.locks {
		if l.pid == except || !l.write {
			continue
		}
		if l.overlaps(sharedFirst, sharedLast) {
			return true, "EXCLUSIVE"
		}
		if l.overlaps(pendingByte, pendingByte) {
			why = "PENDING"
		}
	}
	return why != "", why
}

// ---------------------------------------------------------------- actors

type mHandle struct {
	name    string
	ag      *agent.Client
	agName  string
	open    bool
	busy    bool // an operation is in flight
	locked  bool // between lock-ok and unlock (trace)
	pages   int
	kind    string
	exit    string
	version int // committed version at lock-ok
	blocked string // writer state that must make this op fail ("" = none), decided at the lock event
	sawLock bool
	lockSeen int
	returned *agent.Event
	cols    []string
	key     []sq.Val
	rowid   int64
	stopAt  int
	faulted bool
}

type mWriter struct {
	name   string
	w      *sq.Worker
	conn   string
	inTx   bool
	dirty  bool
	commitFailed bool
	txn    int
	stmts  int
}

type mWorld struct {
	c        *sim.Ctx
	s        *sim.Src
	env      *MEnv
	dir      string
	path     string
	handles  []*mHandle
	writers  []*mWriter
	versions [][][]sq.Val // committed content of t, per version: rows (id, v)
	ixOrder  [][]int64    // ids in index (v) order per version
	prop     string
	pageSize int
	jmode    string
	nextID   int64
	txnSeq   int
	lastView lockView
}

func (m *mWorld) view() lockView {
	l, err := procLocks(m.path)
	if err != nil {
		m.c.Troublef("/proc/locks: %v", err)
	}
	m.lastView = lockView{l}
	return m.lastView
}

func (m *mWorld) snapshot(w *mWriter) {
	rows, resp, err := w.w.Typed(w.conn, []string{"id", "v", "n"}, "FROM t ORDER BY id")
	if err != nil || resp == nil || !resp.OK {
		m.c.Troublef("snapshot after commit failed: %v %v", err, resp)
	}
	m.versions = append(m.versions, rows)
	ord, _, err := w.w.Query(w.conn, "SELECT id FROM t NOT INDEXED ORDER BY v, id")
	if err != nil {
		m.c.Troublef("snapshot order: %v", err)
	}
	var ids []int64
	for _, r := range ord {
		ids = append(ids, r[0].(int64))
	}
	m.ixOrder = append(m.ixOrder, ids)
	m.c.Log.Add("O", "version", "v%d rows=%d", len(m.versions)-1, len(rows))
}

func (m *mWorld) cur() int { return len(m.versions) - 1 }

// stillTrue re-reads the lock table a few more times before an "expected lock is
// not there" verdict is believed: a line can be skipped by a pass while other
// processes churn the kernel's list, but never by all passes.
func (m *mWorld) stillTrue(missing func(lockView) bool) bool {
	for i := 0; i < 6; i++ {
		time.Sleep(time.Millisecond)
		if !missing(m.view()) {
			m.c.Inc("lock_table_reread_rescued", 1)
			return false
		}
	}
	return true
}

func (m *mWorld) wexec(w *mWriter, sql string, params ...sq.Val) *sq.Resp {
	r, err := w.w.Exec(w.conn, sql, params...)
	if err != nil {
		m.c.Troublef("writer %s: %v", w.name, err)
	}
	res := "ok"
	if !r.OK {
		res = "err=" + r.Err
	}
	m.c.Log.Add(w.name, "sql", "%s /%d %s", short(sql, 120), len(params), res)
	m.c.Note("%s: %s  -> %s", w.name, short(sql, 160), res)
	w.inTx = r.InTx
	return r
}

func short(s string, n int) string {
	if len(s) > n {
		return s[:n] + "…"
	}
	return s
}

// setup creates the database and the first committed version.
func (m *mWorld) setup() {
	s := m.s
	m.pageSize = []int{512, 1024, 4096}[s.Draw(3, "pagesize")]
	m.jmode = []string{"DELETE", "TRUNCATE", "PERSIST"}[s.Draw(3, "jmode")]
	m.path = filepath.Join(m.dir, "db")
	w1 := &mWriter{name: "W1", w: m.env.W, conn: "w1"}
	w2 := &mWriter{name: "W2", w: m.env.W2, conn: "w2"}
	m.writers = []*mWriter{w1, w2}
	cache := []int{5, 2000}[s.Draw(2, "wcache")]
	syncMode := []string{"FULL", "OFF", "NORMAL"}[s.Draw(3, "synchronous")]
	if err := w1.w.Open(w1.conn, m.path, fmt.Sprintf("PRAGMA page_size=%d", m.pageSize), "PRAGMA journal_mode="+m.jmode, fmt.Sprintf("PRAGMA cache_size=%d", cache)); err != nil {
		m.c.Troublef("open w1: %v", err)
	}
	w1.w.Exec(w1.conn, "PRAGMA synchronous="+syncMode)
	m.c.Log.Add("W1", "open", "page_size=%d journal=%s cache=%d synchronous=%s", m.pageSize, m.jmode, cache, syncMode)
	m.c.Note("PRAGMA page_size=%d; journal_mode=%s; cache_size=%d", m.pageSize, m.jmode, cache)
	m.wexec(w1, "CREATE TABLE t (id INTEGER PRIMARY KEY, v TEXT, n INT)")
	m.wexec(w1, "CREATE INDEX tv ON t (v)")
	n := 5 + s.Draw(150, "nrows")
	m.wexec(w1, "BEGIN")
	for i := 1; i <= n; i++ {
		m.wexec(w1, "INSERT INTO t VALUES (?, ?, ?)", int64(i), fmt.Sprintf("v0-%04d-%s", i, strings.Repeat("x", s.Draw(60, "pad"))), int64(0))
	}
	m.wexec(w1, "COMMIT")
	m.nextID = int64(n + 1)
	m.snapshot(w1)
	if err := w2.w.Open(w2.conn, m.path, fmt.Sprintf("PRAGMA cache_size=%d", cache)); err != nil {
		m.c.Troublef("open w2: %v", err)
	}
	w2.w.Exec(w2.conn, "PRAGMA journal_mode="+m.jmode)
	w2.w.Exec(w2.conn, "PRAGMA synchronous="+syncMode)
}

func (m *mWorld) teardown() {
	for _, h := range m.handles {
		if h.busy {
			h.ag.Call(agent.Req{Cmd: "resume", H: h.name, Until: "return"})
		}
		if h.open {
			h.ag.Call(agent.Req{Cmd: "close", H: h.name})
		}
	}
	for _, w := range m.writers {
		if w.inTx {
			w.w.Exec(w.conn, "ROLLBACK")
		}
		w.w.CloseConn(w.conn)
	}
}

// writer step: one SQL statement
func (m *mWorld) writerStep(w *mWriter) {
	s := m.s
	switch {
	case !w.inTx:
		kind := []string{"BEGIN IMMEDIATE", "BEGIN IMMEDIATE", "BEGIN", "BEGIN EXCLUSIVE"}[s.Draw(4, "begin")]
		r := m.wexec(w, kind)
		if r.OK {
			m.txnSeq++
			w.txn = m.txnSeq
			w.dirty = false
			w.commitFailed = false
			w.stmts = 0
		}
	case w.commitFailed && s.Chance(1, 3, "rollback"):
		m.wexec(w, "ROLLBACK")
		w.commitFailed = false
	case w.stmts > 0 && s.Chance(1, 3, "commit") || w.commitFailed || w.stmts > 5:
		// I4: no COMMIT may succeed while a reader is inside its locked interval
		var inside []string
		for _, h := range m.handles {
			if h.busy && h.locked {
				inside = append(inside, h.name)
			}
		}
		r := m.wexec(w, "COMMIT")
		if r.OK {
			w.commitFailed = false
			if w.dirty {
				m.snapshot(w)
			}
			if len(inside) > 0 && w.dirty {
				m.c.Fail("commit-during-read", "I4:commit-during-read", fmt.Sprintf("%s committed while %v were between their first page read and return (SHARED lock not effective)", w.name, inside),
					map[string]interface{}{"writer": w.name, "readers": inside})
			}
			m.c.Probe("writer-commit-ok")
		} else {
			w.commitFailed = true
			m.c.Probe("writer-commit-busy")
		}
	default:
		w.stmts++
		tag := fmt.Sprintf("v%d", w.txn)
		var r *sq.Resp
		switch s.Draw(4, "dml") {
		case 0:
			id := m.nextID
			m.nextID++
			r = m.wexec(w, "INSERT INTO t VALUES (?, ?, ?)", id, fmt.Sprintf("%s-%04d", tag, id), int64(w.txn))
		case 1:
			a := int64(1 + s.Draw(int(m.nextID), "from"))
			r = m.wexec(w, "UPDATE t SET v = ? || '-' || id || ?, n = ? WHERE id BETWEEN ? AND ?", tag, strings.Repeat("y", s.Draw(200, "pad")), int64(w.txn), a, a+int64(s.Draw(400, "span")))
		case 2:
			a := int64(1 + s.Draw(int(m.nextID), "from"))
			r = m.wexec(w, "DELETE FROM t WHERE id BETWEEN ? AND ?", a, a+int64(s.Draw(5, "span")))
		default:
			// big update: with cache_size 5 this spills dirty pages (needs EXCLUSIVE)
			r = m.wexec(w, "UPDATE t SET v = ? || '-' || id || ?, n = ?", tag, strings.Repeat("z", 100+s.Draw(300, "pad")), int64(w.txn))
		}
		if r.OK && r.Rowcount != 0 {
			w.dirty = true
		}
	}
}

var readerKinds = []string{"select", "selectdone", "rowid", "ixselect", "ixeq", "pk", "columns", "tscan", "drvselect"}

func (m *mWorld) startOp(h *mHandle) {
	s := m.s
	h.kind = readerKinds[s.Draw(len(readerKinds), "opkind")]
	h.exit = "complete"
	rq := agent.Req{Cmd: "start", H: h.name, Kind: h.kind, Table: "t", Cols: []string{"id", "v", "n"}}
	h.cols = rq.Cols
	h.stopAt, h.key, h.rowid = 0, nil, 0
	switch h.kind {
	case "selectdone":
		h.stopAt = 1 + s.Draw(20, "stopat")
		rq.StopAt = h.stopAt
		h.exit = "early-stop"
	case "rowid":
		h.rowid = int64(1 + s.Draw(int(m.nextID), "rowid"))
		rq.Rowid = h.rowid
	case "pk":
		h.rowid = int64(1 + s.Draw(int(m.nextID), "rowid"))
		h.key = []sq.Val{h.rowid}
	case "ixselect":
		rq.Index = "tv"
	case "ixeq":
		rq.Index = "tv"
		cur := m.versions[m.cur()]
		if len(cur) > 0 {
			h.key = []sq.Val{cur[s.Draw(len(cur), "keyrow")][1]}
		} else {
			h.key = []sq.Val{"none"}
		}
	case "tscan":
		rq.Lock = true
	case "columns":
	case "drvselect":
		// database/sql driver path: complete, Close after k rows, or cancel after k rows
		switch s.Draw(3, "drvexit") {
		case 1:
			h.stopAt = 1 + s.Draw(15, "closeat")
			rq.StopAt = h.stopAt
			h.exit = "early-stop"
			m.c.Fault("driver-close-at-k")
		case 2:
			h.stopAt = 1 + s.Draw(15, "cancelat")
			rq.CancelAt = h.stopAt
			h.exit = "early-stop"
			m.c.Fault("driver-cancel-at-k")
		}
		m.c.Probe("driver-op")
	}
	if h.key != nil {
		for _, v := range h.key {
			rq.Key = append(rq.Key, sq.EncVal(v))
		}
	}
	switch h.kind {
	case "select", "ixselect", "tscan", "ixeq", "pk":
		// every call that takes a row callback can leave through a panic of the callback
		// or through a failing page read
		switch s.Weighted([]int{6, 2, 2}, "exitpath") {
		case 1:
			rq.PanicAt = 1 + s.Draw(10, "panicat")
			if h.kind == "pk" {
				rq.PanicAt = 1 // at most one row
			} else if h.kind == "ixeq" {
				rq.PanicAt = 1 + s.Draw(2, "panicat-eq")
			}
			h.exit = "callback-panic"
			m.c.Fault("callback-panic")
		case 2:
			rq.FailRead = 1 + s.Draw(12, "failread")
			h.exit = "read-error"
			h.faulted = true
			m.c.Fault("read-error")
		}
	}
	if h.exit == "complete" && h.kind != "tscan" && h.kind != "drvselect" && s.Chance(1, 8, "bad-argument") {
		// the call is refused for its arguments (after it has taken the lock and read the
		// schema): an error, no callback, and the lock released like on every other path
		switch {
		case (h.kind == "ixselect" || h.kind == "ixeq") && s.Chance(2, 3, "bad-index"):
			rq.Index = "nosuchindex"
		case h.kind != "columns" && s.Chance(1, 2, "bad-column"):
			rq.Cols = []string{"id", "nosuchcolumn"}
		default:
			rq.Table = "nosuchtable"
		}
		h.exit = "bad-argument"
		m.c.Fault("bad-argument")
	}
	switch h.kind {
	case "select", "selectdone", "ixselect", "ixeq", "pk":
		if h.exit != "bad-argument" && s.Chance(1, 8, "nested-call") {
			rq.NestAt = 1 + s.Draw(3, "nestat")
			m.c.Fault("nested-call-in-callback")
		}
	}
	if h.exit == "early-stop" {
		m.c.Fault("early-stop")
	}
	ev, err := h.ag.Call(rq)
	if err != nil {
		m.c.Troublef("agent start: %v", err)
	}
	h.busy, h.locked, h.pages, h.sawLock, h.blocked, h.returned, h.lockSeen = true, false, 0, false, "", nil, 0
	m.c.Log.Add(h.name, "start", "%s exit=%s -> %s", h.kind, h.exit, ev.Kind)
	m.c.Note("%s: start %s (exit path %s)", h.name, h.kind, h.exit)
}

func (m *mWorld) resumeOp(h *mHandle) {
	until := []string{"any", "callback", "lock", "return", "any"}[m.s.Draw(5, "until")]
	m.resumeUntil(h, until)
}

func (m *mWorld) resumeUntil(h *mHandle, until string) {
	// the lock attempt may happen inside this resume without being reported as
	// its own event: the ground truth for it is the table as it is now (lock-step:
	// no other actor moves during the resume)
	// (an operation can make several lock attempts: the driver looks the columns
	// up in one transaction and scans in a second one; each attempt is judged)
	preVersion := m.cur()
	pre := m.view()
	ev, err := h.ag.Call(agent.Req{Cmd: "resume", H: h.name, Until: until})
	if err != nil {
		m.c.Troublef("agent resume: %v", err)
	}
	h.locked, h.pages = ev.Locked, ev.Pages
	m.c.Log.Add(h.name, "resume", "%s -> %s n=%d skipped=%d pages=%d locked=%v", until, ev.Kind, ev.N, ev.Skipped, ev.Pages, ev.Locked)
	m.c.Note("%s: resume until %s -> %s (pages so far %d)", h.name, until, ev.Kind, ev.Pages)
	if ev.LockEvents > h.lockSeen {
		h.lockSeen = ev.LockEvents
		m.atLockEvent(h, "lock-"+ev.LockOutcome, ev.Err, pre, preVersion)
	}
	if ev.Kind == "returned" {
		h.busy = false
		h.returned = ev
		m.atReturn(h, ev)
	}
}

// at the moment a handle reports the outcome of its lock attempt
func (m *mWorld) atLockEvent(h *mHandle, kind string, errText string, v lockView, version int) {
	h.sawLock = true
	blocked, why := v.blocksReaders(h.ag.Pid)
	h.version = version
	detail := map[string]interface{}{"handle": h.name, "op": h.kind, "kernel": fmtLocks(v), "writers": m.writerStates(v)}
	if kind == "lock-ok" {
		h.blocked = ""
		if blocked {
			h.blocked = why
			m.c.Fail("read-lock-granted-under-"+why, "lock-ok-under-"+why, fmt.Sprintf("%s obtained its read lock although another process holds %s", h.name, why), detail)
		}
		m.c.Probe("lock-ok")
		for _, w := range m.writers {
			if st := v.sqliteState(w.w.Pid); st == "RESERVED" {
				m.c.Probe("read-under-RESERVED")
			}
		}
	} else {
		m.c.Probe("lock-fail")
		if !blocked && h.busy && m.stillTrue(func(w lockView) bool { b, _ := w.blocksReaders(h.ag.Pid); return !b }) {
			// own-process effects (a sibling handle already holds the pending byte?) cannot make F_SETLK fail
			m.c.Fail("spurious-lock-failure", "lock-fail-without-writer", fmt.Sprintf("%s failed to lock (%s) but no other process holds PENDING or EXCLUSIVE", h.name, errText), detail)
		}
		h.blocked = why
		m.c.Probe("lock-fail-under-" + why)
	}
}

func (m *mWorld) writerStates(v lockView) map[string]string {
	out := map[string]string{}
	for _, w := range m.writers {
		out[w.name] = v.sqliteState(w.w.Pid)
	}
	return out
}

func fmtLocks(v lockView) []string {
	var out []string
	for _, l := range v.locks {
		out = append(out, fmt.Sprintf("pid%d %s %#x..%#x", l.pid, map[bool]string{true: "WRITE", false: "READ"}[l.write], l.start, l.end))
	}
	return out
}

func (m *mWorld) expectRows(h *mHandle, ver int) ([][]sq.Val, bool) {
	rows := m.versions[ver]
	switch h.kind {
	case "select", "selectdone", "drvselect":
		return rows, true
	case "tscan":
		var out [][]sq.Val
		for _, r := range rows {
			out = append(out, []sq.Val{r[0], nil, r[1], r[2]})
		}
		return out, true
	case "rowid", "pk":
		for _, r := range rows {
			if r[0].(int64) == h.rowid {
				return [][]sq.Val{r}, true
			}
		}
		return nil, true
	case "ixselect":
		byID := map[int64][]sq.Val{}
		for _, r := range rows {
			byID[r[0].(int64)] = r
		}
		var out [][]sq.Val
		for _, id := range m.ixOrder[ver] {
			out = append(out, byID[id])
		}
		return out, true
	case "ixeq":
		byID := map[int64][]sq.Val{}
		for _, r := range rows {
			byID[r[0].(int64)] = r
		}
		var out [][]sq.Val
		for _, id := range m.ixOrder[ver] {
			if byID[id][1] == h.key[0] {
				out = append(out, byID[id])
			}
		}
		return out, true
	}
	return nil, false
}

// when an operation has returned
func (m *mWorld) atReturn(h *mHandle, ev *agent.Event) {
	c := m.c
	c.Eval(1)
	detail := map[string]interface{}{"handle": h.name, "agent": h.agName, "op": h.kind, "exit": h.exit, "trace": ev.Trace, "err": ev.Err}
	var rows [][]sq.Val
	for _, r := range ev.Rows {
		rr, _ := sq.DecRow(r)
		rows = append(rows, rr)
	}
	if ev.Panic != "" && ev.Panic != "injected" {
		c.Fail("panic", "panic:"+h.kind, fmt.Sprintf("%s %s panicked: %s", h.name, h.kind, firstLine(ev.Panic)), detail)
	}
	// I3: every page read and every callback lies inside a lock-ok .. unlock interval
	// (an operation may have several: the driver locks once for the column lookup
	// and once for the scan)
	lockAt, unlockAt := -1, -1
	inside := false
	for i, t := range ev.Trace {
		switch {
		case t == "lock-ok":
			inside = true
			if lockAt < 0 {
				lockAt = i
			}
		case t == "unlock":
			inside = false
			unlockAt = i
		case strings.HasPrefix(t, "page") || t == "callback":
			if !inside {
				c.Fail("read-outside-lock", "I3:"+strings.Fields(t)[0]+"-outside-lock", fmt.Sprintf("%s %s: trace event %q (#%d) lies outside every lock-ok..unlock interval", h.name, h.kind, t, i), detail)
			}
		}
	}
	if inside {
		c.Fail("no-unlock", "I2:no-unlock-event", fmt.Sprintf("%s %s (exit path %s) returned without unlocking", h.name, h.kind, h.exit), detail)
	}
	_ = unlockAt
	// C07 oracle: blocked => error and no callback; otherwise committed rows
	if h.blocked != "" {
		if ev.OK || ev.Calls > 0 {
			c.Fail("read-under-"+h.blocked, "read-under-"+h.blocked, fmt.Sprintf("%s %s: a writer held %s at the lock attempt, but the call returned err=%q after %d callbacks", h.name, h.kind, h.blocked, ev.Err, ev.Calls), detail)
		}
		c.Probe("refused-under-" + h.blocked)
		return
	}
	if lockAt < 0 {
		// never got a lock and no writer was blocking: already reported at the lock event
		return
	}
	switch h.exit {
	case "callback-panic":
		// rows delivered before the panic must be a prefix
		if want, ok := m.expectRows(h, h.version); ok {
			if okp, at := prefixOf(rows, want); !okp {
				c.Fail("wrong-rows", "I5:rows-before-panic", fmt.Sprintf("%s %s: rows delivered before the callback panic are not a prefix of version %d (row %d)", h.name, h.kind, h.version, at), detail)
			}
		}
		return
	case "read-error":
		if want, ok := m.expectRows(h, h.version); ok {
			if okp, at := prefixOf(rows, want); !okp {
				c.Fail("wrong-rows", "I5:rows-before-error", fmt.Sprintf("%s %s: rows delivered before the injected read error are not a prefix of version %d (row %d)", h.name, h.kind, h.version, at), detail)
			}
		}
		return
	}
	if h.exit == "bad-argument" {
		if ev.OK || ev.Calls > 0 {
			c.Fail("bad-argument-accepted", "bad-argument-accepted:"+h.kind, fmt.Sprintf("%s %s with an unknown table/index/column returned err=%q after %d callbacks", h.name, h.kind, ev.Err, ev.Calls), detail)
		}
		c.Probe("bad-argument-refused")
		return
	}
	if !ev.OK {
		c.Fail("read-failed", "read-error:"+h.kind, fmt.Sprintf("%s %s failed although no writer blocked it and nothing was injected: %s (writers: %v)", h.name, h.kind, ev.Err, m.writerStates(m.lastView)), detail)
		return
	}
	want, ok := m.expectRows(h, h.version)
	if !ok {
		return
	}
	if (h.kind == "selectdone" || h.kind == "drvselect") && h.stopAt > 0 && h.stopAt < len(want) {
		want = want[:h.stopAt]
	}
	if eq, at := rowsEq(want, rows, false); !eq {
		// which version is it, if any?
		is := -1
		for v := range m.versions {
			if w2, _ := m.expectRows(h, v); w2 != nil {
				if (h.kind == "selectdone" || h.kind == "drvselect") && h.stopAt > 0 && h.stopAt < len(w2) {
					w2 = w2[:h.stopAt]
				}
				if e2, _ := rowsEq(w2, rows, false); e2 {
					is = v
				}
			}
		}
		detail["equals_version"] = is
		detail["row"] = at
		detail["want"] = fmtRows(want, at)
		detail["got"] = fmtRows(rows, at)
		c.Fail("uncommitted-or-stale-read", "I5:rows-differ", fmt.Sprintf("%s %s: rows differ from the version committed at its lock (v%d) at row %d: want %s got %s (equals version %d; writers %v)", h.name, h.kind, h.version, at, fmtRows(want, at), fmtRows(rows, at), is, m.writerStates(m.lastView)), detail)
	}
	c.Probe("read-verified")
}

// invariants evaluated after every step, against the kernel's table
func (m *mWorld) invariants(step string) {
	v := m.view()
	byAgent := map[*agent.Client][]*mHandle{}
	for _, h := range m.handles {
		byAgent[h.ag] = append(byAgent[h.ag], h)
	}
	for _, h := range m.handles {
		if h.busy && h.locked {
			// I1: from the lock until unlock the process holds READ on the shared range
			if !v.sharedHeldBy(h.ag.Pid) && m.stillTrue(func(w lockView) bool { return !w.sharedHeldBy(h.ag.Pid) }) {
				sib := 0
				for _, o := range byAgent[h.ag] {
					if o != h {
						sib++
					}
				}
				cfg := "no-same-process-siblings"
				if sib > 0 {
					cfg = "with-same-process-siblings"
				}
				m.c.Fail("shared-lock-lost", "I1:lock-lost:"+cfg, fmt.Sprintf("after step %q: %s is inside %s (pages read: %d, callback may be running) but process %s holds no SHARED lock on the file (kernel: %v)", step, h.name, h.kind, h.pages, h.agName, fmtLocks(v)),
					map[string]interface{}{"handle": h.name, "agent": h.agName, "step": step, "kernel": fmtLocks(v), "same_process_handles": sib})
			}
			m.c.Probe("lock-observed-during-op")
			if h.pages > 0 {
				m.c.Nontrivial = true
			}
		}
	}
	for ag, hs := range byAgent {
		inside := false
		for _, h := range hs {
			if h.busy && h.locked {
				inside = true
			}
		}
		if !inside {
			if l := v.anyOn(ag.Pid); len(l) > 0 {
				m.c.Fail("lock-leaked", "I2:lock-leaked", fmt.Sprintf("after step %q: no handle of process %s is inside an operation but it still holds %v", step, hs[0].agName, l),
					map[string]interface{}{"agent": hs[0].agName, "step": step, "kernel": fmtLocks(v)})
			}
		}
	}
	ws := m.writerStates(v)
	m.c.State(ws["W1"], ws["W2"], len(m.handles))
}

// runMWorld: the seeded schedule
func runMWorld(c *sim.Ctx, prop string) {
	s := c.Src
	me := c.Env.(*MEnv)
	dir, cleanup := me.RunDir()
	defer cleanup()
	// fresh agent processes for every run: nothing a run does to a process (a lock it
	// leaked, a descriptor it kept) can leak into the next run, so every run replays alone
	self, _ := os.Executable()
	for _, a := range me.Agents {
		a.Close()
	}
	me.Agents = nil
	for i := 0; i < 3; i++ {
		a, err := agent.Start(self)
		if err != nil {
			c.Troublef("agent: %v", err)
		}
		me.Agents = append(me.Agents, a)
	}
	m := &mWorld{c: c, s: s, env: me, dir: dir, prop: prop}
	m.setup()
	defer m.teardown()
	// deployment: which handle lives in which process
	separate := c.Cfg["separate-processes"] == "1"
	siblings := s.Chance(1, 2, "siblings") // A1 and A2 in the same process
	nh := 1 + s.Draw(3, "nhandles")
	names := []string{"A1", "A2", "B1"}
	for i := 0; i < nh; i++ {
		ag := me.Agents[0]
		agName := "A"
		switch {
		case names[i] == "B1":
			ag, agName = me.Agents[1], "B"
		case names[i] == "A2" && (separate || !siblings):
			ag, agName = me.Agents[2], "C"
		}
		m.handles = append(m.handles, &mHandle{name: names[i], ag: ag, agName: agName})
	}
	sameProc := false
	if len(m.handles) >= 2 && m.handles[0].ag == m.handles[1].ag {
		sameProc = true
		c.Probe("same-process-siblings")
	} else {
		c.Probe("no-same-process-siblings")
	}
	c.Sample = map[string]interface{}{"handles": nh, "same_process_siblings": sameProc, "page_size": m.pageSize, "journal_mode": m.jmode, "separate_processes_counterfactual": separate}
	steps := 20 + s.Draw(41, "steps")
	for i := 0; i < steps; i++ {
		// enabled actions, fixed order
		type act struct {
			name string
			run  func()
		}
		var acts []act
		for _, h := range m.handles {
			h := h
			switch {
			case !h.open:
				acts = append(acts, act{h.name + ":open", func() {
					ev, err := h.ag.Call(agent.Req{Cmd: "open", H: h.name, Path: m.path, Cache: cacheKnob[s.Draw(len(cacheKnob), "cache")]})
					if err != nil {
						c.Troublef("agent open: %v", err)
					}
					if ev.OK {
						h.open = true
					}
					c.Log.Add(h.name, "open", "ok=%v %s", ev.OK, ev.Err)
					c.Note("%s: open (process %s) ok=%v %s", h.name, h.agName, ev.OK, ev.Err)
				}})
			case h.busy:
				acts = append(acts, act{h.name + ":resume", func() { m.resumeOp(h) }}, act{h.name + ":resume", func() { m.resumeOp(h) }})
			default:
				acts = append(acts, act{h.name + ":start", func() { m.startOp(h) }}, act{h.name + ":start", func() { m.startOp(h) }})
				acts = append(acts, act{h.name + ":close", func() {
					h.ag.Call(agent.Req{Cmd: "close", H: h.name})
					h.open = false
					c.Log.Add(h.name, "close", "")
					c.Note("%s: close", h.name)
				}})
			}
		}
		for _, w := range m.writers {
			w := w
			acts = append(acts, act{w.name + ":stmt", func() { m.writerStep(w) }}, act{w.name + ":stmt", func() { m.writerStep(w) }})
		}
		a := acts[s.Draw(len(acts), "schedule")]
		a.run()
		m.invariants(a.name)
	}
	// drain: everything returns, then a writer must be able to commit (liveness once the schedule stops)
	for _, h := range m.handles {
		for h.busy {
			m.resumeUntil(h, "lock")
			m.invariants(h.name + ":drain")
		}
	}
	for _, w := range m.writers {
		if w.inTx {
			m.wexec(w, "ROLLBACK")
		}
	}
	m.invariants("writers-rolled-back")
	w := m.writers[0]
	r1 := m.wexec(w, "BEGIN IMMEDIATE")
	r2 := m.wexec(w, "UPDATE t SET n = n + 1")
	r3 := m.wexec(w, "COMMIT")
	if !r1.OK || !r2.OK || !r3.OK {
		c.Fail("writer-blocked-after-reads", "liveness:writer-blocked", fmt.Sprintf("all reads have returned and all writers rolled back, but a write transaction cannot commit: %s %s %s (kernel: %v)", r1.Err, r2.Err, r3.Err, fmtLocks(m.view())), nil)
	}
	c.Probe("final-writer-commit")
}

func init() {
	_ = world.AllPageSizes
}

package props

import (
	"fmt"
	"os"
	"path/filepath"
	"strings"

	"verif/ops"
	"verif/sim"
	"verif/sq"
)

// C06 — a read holds SQLite's SHARED lock from its first page read until it returns.
// C07 — readers yield to writers and only ever see committed data.
// Both on the multi-process lock-step world (mworld.go).

func runC06(c *sim.Ctx) { runMWorld(c, "C06") }

// ---------------------------------------------------------------- C07 (a): cross product

var c07States = []string{"UNLOCKED", "SHARED", "RESERVED-clean", "RESERVED-dirty", "PENDING", "EXCLUSIVE-spilled", "EXCLUSIVE-begin", "RESERVED-dirty-syncoff"}
var c07Journal = []string{"DELETE", "TRUNCATE", "PERSIST"}
var c07Ops = []string{"select", "selectdone", "rowid", "ixselect", "ixeq", "pk", "columns", "tscan", "iscan"}
var c07Ages = []string{"fresh", "long-lived"}

func c07Cells() int { return len(c07States) * len(c07Journal) * len(c07Ops) * len(c07Ages) }

func runC07Cell(c *sim.Ctx, cell int) {
	me := c.Env.(*MEnv)
	dir, cleanup := me.RunDir()
	defer cleanup()
	state := c07States[cell%len(c07States)]
	cell /= len(c07States)
	jm := c07Journal[cell%len(c07Journal)]
	cell /= len(c07Journal)
	opk := c07Ops[cell%len(c07Ops)]
	cell /= len(c07Ops)
	age := c07Ages[cell%len(c07Ages)]
	path := filepath.Join(dir, "db")
	W, R := me.W, me.W2
	c.Log.Add("sim", "cell", "%s %s %s %s", state, jm, opk, age)
	c.Sample = map[string]interface{}{"writer_state": state, "journal_mode": jm, "operation": opk, "handle": age}
	c.Nontrivial = true
	ex := func(w *sq.Worker, id, sql string, params ...sq.Val) *sq.Resp {
		r, err := w.Exec(id, sql, params...)
		if err != nil {
			c.Troublef("%s: %v", sql, err)
		}
		c.Log.Add(id, "sql", "%s ok=%v %s", short(sql, 100), r.OK, r.Err)
		c.Note("%s: %s -> ok=%v %s", id, short(sql, 140), r.OK, r.Err)
		if os.Getenv("VERIF_TRACE") != "" {
			l, _ := procLocks(path)
			fmt.Fprintf(os.Stderr, "TRACE %s %s -> %v %s | %v (W pid %d, R pid %d)\n", id, short(sql, 60), r.OK, r.Err, fmtLocks(lockView{l}), W.Pid, R.Pid)
		}
		return r
	}
	if err := W.Open("w", path, "PRAGMA page_size=1024", "PRAGMA journal_mode="+jm, "PRAGMA cache_size=5"); err != nil {
		c.Troublef("open: %v", err)
	}
	defer W.CloseConn("w")
	ex(W, "w", "CREATE TABLE t (id INTEGER PRIMARY KEY, v TEXT, n INT)")
	ex(W, "w", "CREATE INDEX tv ON t (v)")
	ex(W, "w", "BEGIN")
	for i := 1; i <= 120; i++ {
		ex(W, "w", "INSERT INTO t VALUES (?, ?, 0)", int64(i), fmt.Sprintf("committed-%04d-%s", i, strings.Repeat("c", 40)))
	}
	ex(W, "w", "COMMIT")
	committed, _, _ := W.Typed("w", []string{"id", "v", "n"}, "FROM t ORDER BY id")
	// the handle: in this (scheduler) process
	var long = age == "long-lived"
	d, err := sqlittleOpen(path)
	if err != nil {
		c.Fail("open-failed", "open-error", fmt.Sprintf("open: %v", err), nil)
		return
	}
	if long {
		// warm caches before the writer moves
		ops.Run(d, ops.Op{Kind: "select", Table: "t", Cols: []string{"id", "v", "n"}}, nil)
		ops.Run(d, ops.Op{Kind: "ixselect", Table: "t", Index: "tv", Cols: []string{"id"}}, nil)
	} else {
		d.Close()
	}
	// park the writer in the state
	switch state {
	case "UNLOCKED":
	case "SHARED":
		ex(W, "w", "BEGIN")
		ex(W, "w", "SELECT count(*) FROM t")
	case "RESERVED-clean":
		ex(W, "w", "BEGIN IMMEDIATE")
	case "RESERVED-dirty":
		ex(W, "w", "BEGIN IMMEDIATE")
		ex(W, "w", "UPDATE t SET v = 'UNCOMMITTED-' || id, n = 99 WHERE id <= 3")
	case "RESERVED-dirty-syncoff":
		// with synchronous=OFF SQLite writes a complete journal header (magic, record
		// count -1) while it holds only RESERVED: a hot-looking journal of a LIVE writer
		ex(W, "w", "PRAGMA synchronous=OFF")
		ex(W, "w", "BEGIN IMMEDIATE")
		ex(W, "w", "UPDATE t SET v = 'UNCOMMITTED-' || id, n = 99 WHERE id <= 3")
		if jb, err := os.ReadFile(path + "-journal"); err == nil && len(jb) >= 8 && jb[0] == 0xd9 && jb[1] == 0xd5 {
			c.Probe("live-writer-with-hot-looking-journal")
		}
	case "PENDING":
		if err := R.Open("r", path); err != nil {
			c.Troublef("open r: %v", err)
		}
		defer R.CloseConn("r")
		ex(R, "r", "BEGIN")
		ex(R, "r", "SELECT count(*) FROM t")
		ex(W, "w", "BEGIN IMMEDIATE")
		ex(W, "w", "UPDATE t SET v = 'UNCOMMITTED-' || id, n = 99 WHERE id <= 3")
		if r := ex(W, "w", "COMMIT"); r.OK {
			c.Troublef("COMMIT succeeded under a foreign SHARED lock")
		}
	case "EXCLUSIVE-spilled":
		ex(W, "w", "BEGIN IMMEDIATE")
		ex(W, "w", "UPDATE t SET v = 'UNCOMMITTED-' || id || ?, n = 99", strings.Repeat("u", 300))
	case "EXCLUSIVE-begin":
		ex(W, "w", "BEGIN EXCLUSIVE")
	}
	defer func() {
		W.Exec("w", "ROLLBACK")
	}()
	// ground truth: the kernel's table
	locks, err := procLocks(path)
	if err != nil {
		c.Troublef("/proc/locks: %v", err)
	}
	v := lockView{locks}
	wstate := v.sqliteState(W.Pid)
	blocked, why := v.blocksReaders(-1)
	c.Log.Add("K", "locks", "writer=%s blocked=%v %s", wstate, blocked, why)
	c.Probe("writer-parked-" + wstate)
	want := map[string]string{"UNLOCKED": "UNLOCKED", "SHARED": "SHARED", "RESERVED-clean": "RESERVED", "RESERVED-dirty": "RESERVED", "RESERVED-dirty-syncoff": "RESERVED", "PENDING": "PENDING", "EXCLUSIVE-spilled": "EXCLUSIVE", "EXCLUSIVE-begin": "EXCLUSIVE"}[state]
	if wstate != want {
		c.Troublef("writer is in %s, scenario wanted %s (kernel: %v)", wstate, want, fmtLocks(v))
	}
	if !long {
		d, err = sqlittleOpen(path)
		if err != nil {
			// opening reads the header without a lock; under a hot journal with no reserved lock this may legitimately fail
			if blocked || state == "EXCLUSIVE-spilled" {
				c.Probe("open-refused-while-blocked")
				return
			}
			c.Fail("open-failed", "open-error:"+state, fmt.Sprintf("open with writer in %s: %v", state, err), nil)
			return
		}
	}
	defer d.Close()
	op := ops.Op{Kind: opk, Table: "t", Cols: []string{"id", "v", "n"}}
	switch opk {
	case "selectdone":
		op.StopAt = 5
	case "rowid":
		op.Rowid = 2
	case "pk":
		op.Key = []interface{}{int64(2)}
	case "ixselect":
		op.Index = "tv"
	case "ixeq":
		op.Index = "tv"
		op.Key = []interface{}{committed[1][1]}
	case "tscan":
		op.Lock = true
	case "iscan":
		op.Index = "tv"
		op.Table = ""
		op.Lock = true
	}
	r := ops.Run(d, op, nil)
	c.Eval(1)
	detail := map[string]interface{}{"writer_state": wstate, "journal_mode": jm, "op": op.String(), "handle": age, "kernel": fmtLocks(v), "err": fmt.Sprint(r.Err)}
	if r.Panic != nil {
		c.Fail("panic", "panic", fmt.Sprintf("%s panicked: %v", op.String(), r.Panic), detail)
		return
	}
	if blocked {
		if r.Err == nil || r.Calls > 0 || len(r.Rows) > 0 || len(r.Strs) > 0 {
			c.Fail("read-under-"+why, "cell:read-under-"+why, fmt.Sprintf("writer holds %s (%s, journal %s): %s on a %s handle returned err=%v and delivered %d rows", why, state, jm, op.String(), age, r.Err, len(r.Rows)), detail)
		}
		return
	}
	if r.Err != nil {
		c.Fail("read-refused", "cell:refused-under-"+wstate, fmt.Sprintf("writer holds only %s (%s, journal %s): %s on a %s handle failed: %v", wstate, state, jm, op.String(), age, r.Err), detail)
		return
	}
	// committed data only
	for _, row := range r.Rows {
		for _, val := range row {
			if s, ok := val.(string); ok && strings.HasPrefix(s, "UNCOMMITTED") {
				c.Fail("uncommitted-read", "cell:uncommitted-under-"+wstate, fmt.Sprintf("writer in %s: %s returned the writer's uncommitted row %s", state, op.String(), sq.FmtRow(row)), detail)
				return
			}
		}
	}
	var wantRows [][]sq.Val
	switch opk {
	case "select":
		wantRows = committed
	case "selectdone":
		wantRows = committed[:5]
	case "rowid", "pk":
		wantRows = committed[1:2]
	case "ixeq":
		wantRows = committed[1:2]
	case "ixselect":
		wantRows = committed // v is ordered like id here
	}
	if wantRows != nil {
		if eq, at := rowsEq(wantRows, r.Rows, false); !eq {
			c.Fail("wrong-rows", "cell:rows-under-"+wstate, fmt.Sprintf("writer in %s: %s differs from the last committed state at row %d", state, op.String(), at), detail)
		}
	} else if opk == "tscan" || opk == "iscan" {
		if len(r.Rows) != len(committed) {
			c.Fail("wrong-rows", "cell:count-under-"+wstate, fmt.Sprintf("writer in %s: %s delivered %d records, committed %d", state, op.String(), len(r.Rows), len(committed)), detail)
		}
	}
}

func runC07(c *sim.Ctx) {
	n := c07Cells()
	if c.Idx < n {
		runC07Cell(c, c.Idx)
		return
	}
	if c.Cfg == nil {
		c.Cfg = map[string]string{}
	}
	c.Cfg["separate-processes"] = "1" // C07 never uses same-process siblings (that is C06's finding)
	runMWorld(c, "C07")
}

func init() {
	realM := []string{"sqlittle incl. the unix file pager (fcntl locks, mmap) in agent processes", "real Linux kernel POSIX lock table on tmpfs, observed through /proc/locks", "SQLite 3.40.1 writers (python sqlite3), one OS process per connection"}
	sim.Register(&sim.Prop{
		ID: "C06", Engine: "E-WORLD-MP", Level: "exploration", Fn: runC06, NewEnv: NewMEnv,
		Runs: map[string]int{"quick": 2400, "thorough": 24000},
		Rule: "per run: one database (page size, journal mode, writer cache size drawn), 1-3 sqlittle handles (A1, A2 in agent process A or - half of the runs - in separate processes, B1 in process B) and 2 SQLite writers in their own processes; a seeded schedule of 20-60 steps picks one enabled action at a time: open / start an operation (8 kinds; exit path drawn from complete, early stop at row k, injected read error at read k, callback panic at row k) / resume to the next yield (pager event, callback, lock event or return) / close, and writer statements (BEGIN [IMMEDIATE|EXCLUSIVE], INSERT/UPDATE/DELETE incl. cache-spilling updates, COMMIT, ROLLBACK); after EVERY step the kernel's lock table is read and I1 (SHARED held while inside), I2 (nothing held after return), I4 (no COMMIT succeeds meanwhile) are evaluated; at every return I3 (all page reads and callbacks between lock-ok and unlock), I5 (rows = version committed at the lock) and the writer-state oracle; finally all reads are drained and a writer must commit; evaluations = operations returned; non-trivial = a lock was observed in the kernel table while a handle was parked after reading pages; states = (W1 state, W2 state, handles)",
		Real: realM, Stub: []string{"none: tracing pager only observes and parks"},
		Assumptions: []string{"lock-step: exactly one actor moves at a time, so every interleaving of the modelled yield points is reachable but truly simultaneous system calls are not", "a lost lock is attributed to the known same-process finding only by counterfactual replay of the same schedule with every handle in its own process"},
		MaxRunSecs: 300,
		Classify: func(v *sim.Violation, rerun func(cfg map[string]string) *sim.RunResult) string {
			if !strings.Contains(v.Sig, "I1:lock-lost") && !strings.Contains(v.Sig, "I4:commit-during-read") && !strings.Contains(v.Sig, "I5:rows-differ") {
				return ""
			}
			r := rerun(map[string]string{"separate-processes": "1"})
			if r.Viol == nil && r.Trouble == "" {
				return "C06:lock-lost:same-process-sibling"
			}
			return ""
		},
		Vacuity: func(st map[string]int64, runs int, tier string) error {
			for _, p := range []string{"lock-observed-during-op", "no-same-process-siblings", "same-process-siblings", "writer-commit-busy", "writer-commit-ok", "lock-fail", "read-verified", "final-writer-commit"} {
				if st["probe."+p] == 0 {
					return fmt.Errorf("reach probe %q is zero", p)
				}
			}
			return nil
		},
	})
	sim.Register(&sim.Prop{
		ID: "C07", Engine: "E-WORLD-MP", Level: "exploration", Fn: runC07, NewEnv: NewMEnv,
		Runs: map[string]int{"quick": 432 + 2000, "thorough": 432 + 16000},
		Rule: "runs 0..431 are the COMPLETE cross product writer state {UNLOCKED, SHARED, RESERVED-clean, RESERVED-dirty+journal, RESERVED-dirty with synchronous=OFF (complete journal header on disk while the writer lives), PENDING, EXCLUSIVE-spilled, EXCLUSIVE-begin} x journal mode {DELETE, TRUNCATE, PERSIST} x read operation (9) x handle age {fresh, long-lived with warm caches}, each with a real SQLite connection parked in the state and the state confirmed in the kernel's lock table; the remaining runs are seeded multi-process schedules as for C06 (without same-process siblings) in which every read is judged at its lock event: another process holding PENDING or EXCLUSIVE => error and no callback, otherwise nil error and exactly the rows of the version committed at that moment (uncommitted rows are distinguishable by content); evaluations = operations judged; distinct = distinct event logs",
		Real: realM, Stub: []string{"none"},
		Assumptions: []string{"ground truth of the writer's lock state is the kernel table, not the harness's belief", "the puppet-writer tier (parked inside a commit at every syscall boundary) is covered by C09's engine, not here"},
		MaxRunSecs: 300,
		Vacuity: func(st map[string]int64, runs int, tier string) error {
			for _, p := range []string{"writer-parked-UNLOCKED", "writer-parked-SHARED", "writer-parked-RESERVED", "writer-parked-PENDING", "writer-parked-EXCLUSIVE", "read-under-RESERVED", "lock-fail-under-PENDING", "lock-fail-under-EXCLUSIVE", "read-verified", "live-writer-with-hot-looking-journal"} {
				if st["probe."+p] == 0 {
					return fmt.Errorf("reach probe %q is zero", p)
				}
			}
			return nil
		},
	})
}

package props

import (
	"context"
	"database/sql"
	sqldriver "database/sql/driver"
	"fmt"
	"io"
	"os"
	"runtime"
	"strings"
	"sync"
	"sync/atomic"
	"testing"
	"testing/synctest"
	"time"

	"github.com/alicebob/sqlittle"
	sdb "github.com/alicebob/sqlittle/db"
	drv "github.com/alicebob/sqlittle/driver"

	"verif/gen"
	"verif/ops"
	"verif/pg"
	"verif/sim"
	"verif/sq"
	"verif/world"
)

// C19 — the database/sql driver returns the native API's rows and cleans up.
// E-DRV: the driver's producer goroutine, database/sql and the consumer run
// inside a testing/synctest bubble; the scheduler goroutine performs one action
// at a time and waits for quiescence; the producer is additionally parked at
// page reads through a gate in the tracing pager.

type bubbleResult struct {
	viol  *sim.Violation
	panic interface{}
}

// inBubble runs f inside a synctest bubble; a goroutine still blocked when the
// bubble ends makes synctest panic: that is the leak oracle.
func inBubble(f func()) (leak string) {
	t := sim.T
	if t == nil {
		panic(sim.Trouble{Msg: "no *testing.T: the harness must be built as a test binary"})
	}
	done := make(chan string, 1)
	go func() {
		defer func() {
			if r := recover(); r != nil {
				done <- fmt.Sprint(r)
				return
			}
			done <- ""
		}()
		ok := t.Run("bubble", func(t *testing.T) {
			defer func() {
				if r := recover(); r != nil {
					if _, isStop := r.(stopMarker); isStop {
						return
					}
					panic(r)
				}
			}()
			synctest.Test(t, func(t *testing.T) { f() })
		})
		_ = ok
	}()
	return <-done
}

type stopMarker struct{}

// appCtx is a caller's own context.Context implementation (not one of the standard
// library's): context.WithCancel then needs a goroutine to watch it, which lives until
// the child is cancelled - a derived context that is never cancelled leaks it.
type appCtx struct{ done chan struct{} }

func (a appCtx) Deadline() (time.Time, bool) { return time.Time{}, false }
func (a appCtx) Done() <-chan struct{}       { return a.done }
func (a appCtx) Value(interface{}) interface{} { return nil }
func (a appCtx) Err() error {
	select {
	case <-a.done:
		return context.Canceled
	default:
		return nil
	}
}

// bubbleGoroutines counts the goroutines that belong to a synctest bubble
// (runtime.NumGoroutine would also count finalizer and other process-wide ones).
func bubbleGoroutines() int {
	buf := make([]byte, 1<<20)
	for {
		n := runtime.Stack(buf, true)
		if n < len(buf) {
			buf = buf[:n]
			break
		}
		buf = make([]byte, 2*len(buf))
	}
	c := 0
	for _, l := range strings.Split(string(buf), "\n") {
		if strings.HasPrefix(l, "goroutine ") && strings.Contains(l, "synctest bubble") {
			c++
		}
	}
	return c
}

func nativeRows(c *sim.Ctx, path, table string, cols []string) ([][]sq.Val, error) {
	d, err := sqlittle.Open(path)
	if err != nil {
		return nil, err
	}
	defer d.Close()
	r := ops.Run(d, ops.Op{Kind: "select", Table: table, Cols: cols}, nil)
	if r.Panic != nil {
		return nil, fmt.Errorf("panic %v", r.Panic)
	}
	return r.Rows, r.Err
}

func drvVal(v interface{}) sq.Val {
	switch x := v.(type) {
	case nil:
		return nil
	case int64:
		return x
	case float64:
		return x
	case string:
		return x
	case []byte:
		return append([]byte{}, x...)
	}
	return fmt.Sprintf("?%T", v)
}

func runC19(c *sim.Ctx) {
	s := c.Src
	e := env(c)
	dir, cleanup := e.RunDir()
	defer cleanup()
	prof := world.Profile{PageSizes: []int{512, 1024, 4096}, MaxTables: 2, RowsLo: 0, RowsHi: 60, Fancy: 2, WithoutRow: 3, IndexesHi: 1,
		Boundary: true, JournalMode: []string{"DELETE"}, DDL: true, Vacuum: true}
	w := world.New(c, e.W, dir, prof)
	w.Build()
	for i := s.Draw(3, "steps"); i > 0; i-- {
		w.Step()
	}
	snap := w.Snap
	worldOpen := true
	defer func() {
		if worldOpen {
			w.Close()
		}
	}()
	path := w.Path
	// pick a table sqlittle accepts
	var tabs []*sq.Table
	{
		d, err := sqlittle.Open(path)
		if err == nil {
			for _, t := range snap.Tables {
				if acc, _ := accepted(d, t.Name); acc && t.HasRows {
					tabs = append(tabs, t)
				}
			}
			d.Close()
		}
	}
	if len(tabs) == 0 {
		c.Inc("no_accepted_table", 1)
		return
	}
	t := tabs[s.Draw(len(tabs), "table")]
	// column list: * or names (the driver's SELECT grammar takes bare/quoted identifiers)
	star := s.Chance(1, 2, "star")
	names := t.ColNames()
	var sel []string
	var cols []string
	// one query in three is spelled differently: keyword and identifier case, quoting
	// style, trailing semicolon/space, the rowid pseudo-column. The driver may reject a
	// spelling (counted); if it answers, the rows must be the native ones.
	variant := s.Chance(1, 3, "syntax-variant")
	qi := func(name string) string {
		if variant {
			return gen.IdentRefSame(s, name, 6)
		}
		return gen.Quote(name)
	}
	if star {
		sel = []string{"*"}
		cols = names
		if s.Chance(1, 4, "star-plus") {
			extra := names[s.Draw(len(names), "extra")]
			sel = append(sel, qi(extra))
			cols = append(append([]string{}, names...), extra)
		}
	} else {
		n := 1 + s.Draw(len(names), "ncols")
		for i := 0; i < n; i++ {
			cn := names[s.Draw(len(names), "col")]
			sel = append(sel, qi(cn))
			cols = append(cols, cn)
		}
	}
	if variant && !t.WithoutRowid && t.ColIndex("rowid") < 0 && s.Chance(1, 3, "rowid-column") {
		rn := []string{"rowid", "ROWID", "oid", "_rowid_"}[s.Draw(4, "rowidname")]
		sel = append(sel, rn)
		cols = append(append([]string{}, cols...), rn)
	}
	query := "SELECT " + strings.Join(sel, ", ") + " FROM " + qi(t.Name)
	if variant {
		kw := [][2]string{{"select", "from"}, {"Select", "From"}, {"SELECT", "from"}, {"SELECT", "FROM"}}[s.Draw(4, "kwcase")]
		query = kw[0] + " " + strings.Join(sel, []string{", ", ",", " , "}[s.Draw(3, "comma")]) + " " + kw[1] + " " + qi(t.Name) + []string{"", ";", " ", "\n", " ;"}[s.Draw(5, "trailer")]
	}
	native, nerr := nativeRows(c, path, t.Name, cols)
	if nerr != nil {
		c.Inc("native_error", 1)
		return
	}
	mode := s.Weighted([]int{4, 3, 3, 2, 3}, "mode")
	if mode != 4 {
		w.Close()
		worldOpen = false
	}
	c.Log.Add("sim", "query", "%s rows=%d mode=%d", query, len(native), mode)
	c.Note("query: %s (native rows: %d)", query, len(native))
	c.Sample = map[string]interface{}{"query": query, "native_rows": len(native), "mode": []string{"database/sql complete+close/cancel at k", "driver.Stmt with parked producer", "fault mid-scan", "error inputs", "prepared statement executed repeatedly with SQLite commits in between"}[mode]}
	// one P: a goroutine created by the code under test does not run before the
	// scheduler goroutine blocks, so "Close arrives before the producer was ever
	// scheduled" is a reachable, repeatable order
	runtime.GOMAXPROCS(1)
	before := runtime.NumGoroutine()
	var viol *sim.Violation
	var violMu sync.Mutex
	fail := func(kind, sig, msg string) {
		violMu.Lock()
		defer violMu.Unlock()
		if viol == nil {
			viol = &sim.Violation{Kind: kind, Sig: sig, Msg: msg}
		}
	}
	var script []string
	note := func(f string, a ...interface{}) { script = append(script, fmt.Sprintf(f, a...)) }
	var rescue func() // unblocks a stuck producer so that the bubble can end

	leak := inBubble(func() {
		g0 := bubbleGoroutines()
		defer func() {
			// anything of this scenario still alive after quiescence is durably blocked: a leak.
			// Report it here (shrinkable); the end-of-bubble deadlock report is the backstop.
			synctest.Wait()
			if g1 := bubbleGoroutines(); g1 > g0 {
				fail("goroutine-leak", "leak:blocked-goroutines", fmt.Sprintf("%s: %d goroutine(s) of the scenario are still blocked after Close/cancel and quiescence", query, g1-g0))
				if rescue != nil {
					rescue()
					synctest.Wait()
				}
			}
		}()
		switch mode {
		case 0: // database/sql: read k rows, then finish / Close / cancel
			k := s.Draw(len(native)+2, "k")
			end := s.Draw(4, "end")
			db, err := sql.Open("sqlittle", path)
			if err != nil {
				fail("driver-error", "sql-open", err.Error())
				return
			}
			defer db.Close()
			ctx, cancel := context.WithCancel(context.Background())
			defer cancel()
			// one query in four runs inside a database/sql transaction (a no-op for this
			// read-only driver: same rows, and Commit/Rollback after Close must work)
			var tx *sql.Tx
			if s.Chance(1, 4, "in-transaction") {
				if t, err := db.BeginTx(ctx, nil); err == nil {
					tx = t
					defer func() {
						if s.Chance(1, 2, "commit") {
							tx.Commit()
						} else {
							tx.Rollback()
						}
					}()
					c.Probe("query-in-transaction")
				}
			}
			var rows *sql.Rows
			if tx != nil {
				rows, err = tx.QueryContext(ctx, query)
			} else {
				rows, err = db.QueryContext(ctx, query)
			}
			if err != nil {
				if variant {
					c.Inc("syntax_variant_rejected", 1)
					return
				}
				fail("driver-error", "query-error", fmt.Sprintf("Query(%q) failed, the native select works: %v", query, err))
				return
			}
			gotCols, _ := rows.Columns()
			if !strsEqFold(gotCols, cols) {
				fail("columns", "columns", fmt.Sprintf("%s: driver columns %v, native/definition order %v", query, gotCols, cols))
			}
			var got [][]sq.Val
			n := 0
			for n < k && rows.Next() {
				vals := make([]interface{}, len(gotCols))
				ptrs := make([]interface{}, len(gotCols))
				for i := range vals {
					ptrs[i] = &vals[i]
				}
				if err := rows.Scan(ptrs...); err != nil {
					fail("driver-error", "scan-error", err.Error())
					break
				}
				row := make([]sq.Val, len(vals))
				for i, v := range vals {
					row[i] = drvVal(v)
				}
				got = append(got, row)
				n++
			}
			note("read %d rows through database/sql", n)
			switch end {
			case 0: // read to the end
				for rows.Next() {
					vals := make([]interface{}, len(gotCols))
					ptrs := make([]interface{}, len(gotCols))
					for i := range vals {
						ptrs[i] = &vals[i]
					}
					rows.Scan(ptrs...)
					row := make([]sq.Val, len(vals))
					for i, v := range vals {
						row[i] = drvVal(v)
					}
					got = append(got, row)
				}
				if err := rows.Err(); err != nil {
					fail("driver-error", "rows-err", fmt.Sprintf("rows.Err() = %v on a healthy database", err))
				}
				rows.Close()
				note("read to the end, Close")
				if eq, at := rowsEq(native, got, false); !eq {
					fail("rows-differ", "rows-differ", fmt.Sprintf("%s through database/sql differs from the native select at row %d: want %s got %s (%d vs %d rows)", query, at, fmtRows(native, at), fmtRows(got, at), len(native), len(got)))
				}
				c.Probe("complete-result-compared")
			case 1:
				rows.Close()
				note("rows.Close() after %d rows", n)
				c.Fault("rows.Close-at-k")
			case 2:
				cancel()
				synctest.Wait()
				rows.Close()
				note("cancel after %d rows, then Close", n)
				c.Fault("cancel-at-k")
			case 3:
				cancel()
				synctest.Wait()
				for rows.Next() {
				}
				rows.Close()
				note("cancel after %d rows, drain with Next, Close", n)
				c.Fault("cancel-at-k")
			}
			if okp, at := prefixOf(got, native); !okp {
				fail("rows-differ", "rows-not-prefix", fmt.Sprintf("%s: rows read before close/cancel are not a prefix of the native result (row %d)", query, at))
			}
			synctest.Wait()
			if l, err := ownLocks(path); err == nil && len(l) > 0 {
				fail("lock-held-after-close", "lock-held-after-rows-close", fmt.Sprintf("%s: rows.Close() has returned (sql.DB still open) and the process holds %v on the database", query, l))
			}
		case 1, 2: // driver.Stmt on a tracing pager: producer parkable at page reads; optional fault
			fp, err := sdb.VerifFilePager(path)
			if err != nil {
				fail("driver-error", "open", err.Error())
				return
			}
			gate := make(chan struct{})
			var gated, closeReturnedA atomic.Bool
			var readsA atomic.Int64
			tr := &pg.Trace{P: fp}
			failAt, failLate, qreadsDry := 0, 0, 0
			if mode == 2 {
				// dry run through the same path to learn how many page reads one execution
				// makes, so that the fault always lands inside it
				nreads, qreads := 30, 0
				if fp0, err := sdb.VerifFilePager(path); err == nil {
					tr0 := &pg.Trace{P: fp0}
					if low0, err := sdb.VerifOpen(tr0, path+"-journal"); err == nil {
						dbh0 := sqlittle.VerifWrap(low0)
						st0 := drv.VerifStatement(dbh0, query)
						if r0, err := st0.QueryContext(context.Background(), nil); err == nil {
							qreads = tr0.ReadCount()
							dest := make([]sqldriver.Value, len(r0.Columns()))
							for r0.Next(dest) == nil {
							}
							r0.Close()
							nreads = tr0.ReadCount()
						}
						st0.Close()
						synctest.Wait()
					} else {
						fp0.Close()
					}
				}
				if nreads < 1 {
					nreads = 1
				}
				failAt = 1 + s.Draw(nreads, "failat")
				if nreads > qreads && s.Chance(2, 3, "fault-in-scan") {
					// land the fault in the producer's scan, not in QueryContext's own column lookup
					failLate = 1 + s.Draw(nreads-qreads, "failat-scan")
					failAt = 0
					qreadsDry = qreads
				}
				c.Fault("read-error-mid-scan")
				if s.Chance(1, 2, "eof-error") {
					// the error a truncated file produces: the file pager returns io.EOF for a
					// page beyond the end - which database/sql would take for the end of the rows
					tr.FailErr = io.EOF
					c.Fault("read-beyond-eof-mid-scan")
				}
			}
			tr.Event = func(kind string, n int, err error) {
				if closeReturnedA.Load() && (kind == "page" || kind == "lock-ok" || kind == "lock-fail") {
					fail("producer-after-close", "producer-after-close", fmt.Sprintf("%s: the producer touched the database (%s) after rows.Close() had returned", query, kind))
				}
				if kind == "page" && gated.Load() {
					readsA.Add(1)
					<-gate // park (durably blocking inside the bubble)
				}
			}
			low, err := sdb.VerifOpen(tr, path+"-journal")
			if err != nil {
				fp.Close()
				fail("driver-error", "open", err.Error())
				return
			}
			dbh := sqlittle.VerifWrap(low)
			nat := native
			stmt := drv.VerifStatement(dbh, query)
			ctx, cancel := context.WithCancel(context.Background())
			defer cancel()
			// the fault is armed relative to now: it may land in QueryContext's own
			// column lookup (then QueryContext must fail) or in the producer's scan
			if failAt > 0 {
				tr.ArmFailAfter(failAt)
			} else if failLate > 0 {
				// an absolute position (QueryContext's own reads are known from the dry run):
				// it does not matter whether the producer goroutine has started by the time
				// QueryContext returns
				tr.SetFailAt(tr.ReadCount() + qreadsDry + failLate)
			}
			preCancelled := s.Chance(1, 12, "cancel-before-query")
			if preCancelled {
				// the context is already done when the driver is called (through database/sql
				// this is the window between its own last check and the driver call)
				cancel()
				c.Fault("cancel-before-query")
			}
			rowsI, err := stmt.QueryContext(ctx, nil)
			if preCancelled {
				if err == nil {
					r0 := rowsI.(*drv.Rows)
					cd := make(chan error, 1)
					go func() {
						dest := make([]sqldriver.Value, len(r0.Columns()))
						for r0.Next(dest) == nil {
						}
						cd <- r0.Close()
					}()
					synctest.Wait()
					select {
					case <-cd:
						closeReturnedA.Store(true)
					default:
						fail("close-hangs", "close-hangs:cancelled-before-query", fmt.Sprintf("%s: QueryContext with an already cancelled context returned rows whose Next/Close never return", query))
					}
				}
				note("QueryContext with an already cancelled context -> %v", err)
				synctest.Wait()
				if l, err := ownLocks(path); err == nil && len(l) > 0 {
					fail("lock-held-after-close", "lock-held-after-rows-close", fmt.Sprintf("%s: cancelled before the query, rows closed, and the process holds %v", query, l))
				}
				stmt.Close()
				synctest.Wait()
				return
			}
			if err != nil {
				if tr.HasFired() {
					c.Probe("fault-in-query-surfaced")
				} else if variant {
					c.Inc("syntax_variant_rejected", 1)
				} else {
					fail("driver-error", "query-error", fmt.Sprintf("QueryContext(%q): %v", query, err))
				}
				dbh.Close()
				return
			}
			rows := rowsI.(*drv.Rows)
			readAll := mode == 2 && s.Chance(1, 2, "readall")
			rescue = func() {
				gated.Store(false)
				for k := 0; k < 1000000; k++ {
					select {
					case gate <- struct{}{}:
						continue
					default:
					}
					dest := make([]sqldriver.Value, len(rows.Columns()))
					done := make(chan error, 1)
					go func() { done <- rows.Next(dest) }()
					synctest.Wait()
					select {
					case err := <-done:
						if err != nil {
							return
						}
					default:
						return
					}
				}
			}
			if !readAll && s.Chance(1, 6, "immediate-close") {
				// Close (or cancel+Close) before the producer goroutine was ever scheduled
				if s.Chance(1, 2, "cancel-first") {
					cancel()
				}
				cerr := rows.Close()
				closeReturnedA.Store(true)
				note("rows.Close() immediately after QueryContext (producer never scheduled yet) -> %v", cerr)
				c.Fault("close-before-producer-start")
				synctest.Wait()
				stmt.Close()
				synctest.Wait()
				return
			}
			synctest.Wait() // the producer runs until its first blocking point
			// from here on the producer parks at every page read
			type nextRes struct {
				row []sq.Val
				err error
			}
			var got [][]sq.Val
			var finalErr error
			ended := false
			cancelled := false
			pendingNext := false
			nextCh := make(chan nextRes, 1)
			doNext := func() {
				pendingNext = true
				go func() {
					dest := make([]sqldriver.Value, len(rows.Columns()))
					err := rows.Next(dest)
					var row []sq.Val
					if err == nil {
						row = make([]sq.Val, len(dest))
						for i, v := range dest {
							row[i] = drvVal(v)
						}
					}
					nextCh <- nextRes{row, err}
				}()
			}
			collect := func() {
				select {
				case r := <-nextCh:
					pendingNext = false
					if r.err != nil {
						ended = true
						if r.err != io.EOF {
							finalErr = r.err
						}
					} else {
						got = append(got, r.row)
					}
				default:
				}
			}
			// the producer was started ungated; gate it now
			gated.Store(true)
			steps := 3 + s.Draw(3*len(native)+12, "steps")
			// (with a fault armed, half of the schedules read to the end: the consumer that
			// must not be told "end of rows" quietly)
			closed := false
			for i := 0; i < steps && !ended && !closed; i++ {
				// enabled actions (never cancel while a Next is outstanding, never Next after cancel: see DESIGN §5.4)
				var acts []string
				acts = append(acts, "release", "release")
				if !pendingNext && !cancelled {
					acts = append(acts, "next", "next", "next")
				}
				if !pendingNext && !cancelled && !readAll {
					acts = append(acts, "cancel")
				}
				if !pendingNext && !readAll {
					acts = append(acts, "close")
				}
				a := acts[s.Draw(len(acts), "action")]
				switch a {
				case "release":
					select {
					case gate <- struct{}{}:
						note("release producer (page read %d)", readsA.Load())
					default:
						note("release: producer not parked at a page read")
					}
				case "next":
					doNext()
					note("Next (row %d)", len(got))
				case "cancel":
					cancel()
					cancelled = true
					note("cancel context after %d rows", len(got))
					c.Fault("cancel-with-parked-producer")
				case "close":
					// Close blocks until the producer is done: run it aside and keep releasing
					cd := make(chan error, 1)
					go func() { cd <- rows.Close() }()
					note("rows.Close() after %d rows (producer at page read %d)", len(got), readsA.Load())
					c.Fault("close-with-parked-producer")
					for k := 0; k < 100000 && !closed; k++ {
						synctest.Wait()
						select {
						case <-cd:
							closed = true
							closeReturnedA.Store(true)
						case gate <- struct{}{}:
						default:
							k = 100000 // nothing can move any more
						}
					}
					if !closed {
						fail("close-hangs", "close-hangs", fmt.Sprintf("%s: rows.Close() after %d rows does not return although the producer is released at every page read", query, len(got)))
						rescue()
						synctest.Wait()
						return
					}
				}
				synctest.Wait()
				collect()
			}
			// wind down: release everything, finish pending Next, Close
			gated.Store(false)
			for k := 0; k < 4; k++ {
				select {
				case gate <- struct{}{}:
				default:
				}
				synctest.Wait()
			}
			collect()
			if !closed {
				if !cancelled && !pendingNext {
					// read to the end: the complete result must match
					for !ended {
						doNext()
						synctest.Wait()
						collect()
						if pendingNext {
							fail("next-hangs", "next-hangs", "Next did not return with the producer ungated")
							return
						}
					}
					if !tr.HasFired() {
						if eq, at := rowsEq(nat, got, false); !eq {
							fail("rows-differ", "rows-differ:stmt", fmt.Sprintf("%s through driver.Stmt differs from the native select at row %d (%d vs %d rows)", query, at, len(nat), len(got)))
						}
						c.Probe("complete-result-compared")
					} else {
						// a page read of the scan failed: reading to the end must not end quietly
						cerr := rows.Close()
						closed = true
						closeReturnedA.Store(true)
						_ = cerr // database/sql closes the driver rows itself when Next reports the end and drops what Close returns: only an error from Next (other than io.EOF, which MEANS the end) reaches rows.Err()
						if finalErr == nil {
							fail("error-swallowed", "error-swallowed", fmt.Sprintf("%s: a page read failed during the scan (read %d); the driver delivered %d of %d rows and then reported io.EOF, the regular end of the result set, from Next", query, tr.FailPos(), len(got), len(nat)))
						}
						c.Probe("mid-scan-fault-surfaced")
					}
				}
				if !closed {
					rows.Close()
					closeReturnedA.Store(true)
				}
			}
			if okp, at := prefixOf(got, nat); !okp {
				fail("rows-differ", "rows-not-prefix:stmt", fmt.Sprintf("%s: rows delivered are not a prefix of the native result (row %d)", query, at))
			}
			synctest.Wait()
			// the result set is closed, the statement (and its handle) still open: the read
			// transaction is over, so the process must hold nothing on the file
			if l, err := ownLocks(path); err == nil && len(l) > 0 {
				fail("lock-held-after-close", "lock-held-after-rows-close", fmt.Sprintf("%s: rows.Close() has returned, the statement is still open, and the process holds %v on the database", query, l))
			}
			stmt.Close()
			synctest.Wait()
		case 3: // error inputs through database/sql
			db, err := sql.Open("sqlittle", path)
			if err != nil {
				fail("driver-error", "sql-open", err.Error())
				return
			}
			defer db.Close()
			bad := []string{
				"SELECT * FROM nosuchtable",
				"SELECT nosuchcolumn FROM " + gen.Quote(t.Name),
				"DELETE FROM " + gen.Quote(t.Name),
				"SELECT * FROM",
				"CREATE TABLE x (a)",
				"",
			}
			q := bad[s.Draw(len(bad), "bad")]
			// half of the error inputs arrive with the application's own Context type
			// (never cancelled: the application lives on); the leak oracle at the end of
			// the bubble then sees a watcher goroutine the driver left behind
			var qctx context.Context = context.Background()
			if s.Chance(1, 2, "application-context") {
				ac := appCtx{done: make(chan struct{})}
				qctx = ac
				prevRescue := rescue
				rescue = func() {
					close(ac.done)
					if prevRescue != nil {
						prevRescue()
					}
				}
				c.Probe("error-input-with-application-context")
			}
			rows, err := db.QueryContext(qctx, q)
			note("Query(%q)", q)
			if err == nil {
				n := 0
				for rows.Next() {
					n++
				}
				err = rows.Err()
				rows.Close()
				if err == nil {
					fail("error-swallowed", "bad-query-accepted", fmt.Sprintf("Query(%q) returned %d rows and no error through Query, Scan or rows.Err", q, n))
				}
			}
			if _, err := db.ExecContext(qctx, "INSERT INTO x VALUES (1)"); err == nil {
				fail("error-swallowed", "exec-accepted", "Exec succeeded on a read-only driver")
			}
			c.Probe("error-input")
			synctest.Wait()
		case 4: // a prepared statement, executed repeatedly, SQLite commits in between
			db, err := sql.Open("sqlittle", path)
			if err != nil {
				fail("driver-error", "sql-open", err.Error())
				return
			}
			defer db.Close()
			db.SetMaxOpenConns(1) // every execution runs on the same driver statement
			ctx, cancel := context.WithCancel(context.Background())
			defer cancel()
			badcol := s.Chance(1, 5, "badcol")
			q := query
			if badcol {
				q = "SELECT nosuchcolumn, " + strings.Join(sel, ", ") + " FROM " + gen.Quote(t.Name)
			}
			stmt, err := db.PrepareContext(ctx, q)
			if err != nil {
				if variant {
					c.Inc("syntax_variant_rejected", 1)
				} else if !badcol {
					fail("driver-error", "prepare-error", fmt.Sprintf("Prepare(%q): %v", q, err))
				}
				return
			}
			defer stmt.Close()
			nexec := 2 + s.Draw(3, "nexec")
			for e := 0; e < nexec; e++ {
				if e > 0 && s.Chance(3, 4, "writer-between") {
					before := w.Version
					w.Step()
					note("SQLite writer step between executions (version %d -> %d)", before, w.Version)
					c.Fault("commit-between-executions")
				}
				// what the native API says now (fresh handle): columns of `*` follow the current definition
				expCols := cols
				if star {
					cur := w.Snap.Table(t.Name)
					if cur != nil {
						expCols = append(append([]string{}, cur.ColNames()...), cols[len(names):]...)
					}
				}
				nat, nerr := nativeRows(c, path, t.Name, expCols)
				rows, err := stmt.QueryContext(ctx)
				if err != nil {
					if nerr == nil && !badcol && !variant {
						fail("driver-error", "query-error:prepared", fmt.Sprintf("execution %d of prepared %q failed, the native select works: %v", e+1, q, err))
						return
					}
					note("execution %d: Query error %v (native: %v)", e+1, err, nerr)
					c.Probe("prepared-execution-error")
				} else {
					gotCols, _ := rows.Columns()
					var got [][]sq.Val
					k := -1
					if s.Chance(1, 3, "partial") {
						k = s.Draw(len(nat)+1, "k")
					}
					for (k < 0 || len(got) < k) && rows.Next() {
						vals := make([]interface{}, len(gotCols))
						ptrs := make([]interface{}, len(gotCols))
						for i := range vals {
							ptrs[i] = &vals[i]
						}
						if err := rows.Scan(ptrs...); err != nil {
							break
						}
						row := make([]sq.Val, len(vals))
						for i, v := range vals {
							row[i] = drvVal(v)
						}
						got = append(got, row)
					}
					rerr := rows.Err()
					rows.Close()
					synctest.Wait()
					note("execution %d: %d rows, rows.Err=%v (native: %d rows, err %v)", e+1, len(got), rerr, len(nat), nerr)
					switch {
					case badcol || nerr != nil:
						if k < 0 && rerr == nil {
							fail("error-swallowed", "error-swallowed:prepared", fmt.Sprintf("execution %d of prepared %q ended without an error (%d rows); native: %v", e+1, q, len(got), nerr))
							return
						}
						c.Probe("prepared-execution-error")
					case k < 0:
						if rerr != nil {
							fail("driver-error", "rows-err:prepared", fmt.Sprintf("execution %d of prepared %q: rows.Err() = %v on a healthy database", e+1, q, rerr))
							return
						}
						if !strsEqFold(gotCols, expCols) {
							fail("columns", "columns:prepared", fmt.Sprintf("execution %d of prepared %q: driver columns %v, current definition %v", e+1, q, gotCols, expCols))
							return
						}
						if eq, at := rowsEq(nat, got, false); !eq {
							fail("rows-differ", "rows-differ:prepared", fmt.Sprintf("execution %d of prepared %q differs from the native select at row %d: want %s got %s (%d vs %d rows)", e+1, q, at, fmtRows(nat, at), fmtRows(got, at), len(nat), len(got)))
							return
						}
						c.Probe("prepared-reexecution-compared")
					default:
						if okp, at := prefixOf(got, nat); !okp {
							fail("rows-differ", "rows-not-prefix:prepared", fmt.Sprintf("execution %d of prepared %q: rows read before Close are not a prefix of the native result (row %d)", e+1, q, at))
							return
						}
					}
				}
				// the statement stays open between executions; the read transaction is over
				if l, err := ownLocks(path); err == nil && len(l) > 0 {
					fail("lock-held-after-close", "lock-held-after-rows-close", fmt.Sprintf("prepared %q: after execution %d (rows closed, statement open) the process holds %v on the database", q, e+1, l))
					return
				}
			}
			synctest.Wait()
		}
	})
	for _, l := range script {
		c.Note("%s", l)
		c.Log.Add("S", "step", "%s", l)
	}
	c.Eval(1)
	c.State(mode, star, len(native) == 0, len(native) > 20, len(script))
	c.Nontrivial = len(native) > 0
	if leak != "" {
		c.Fail("goroutine-leak", "leak:"+firstWord(leak), fmt.Sprintf("%s: a goroutine of the bubble was still blocked when the scenario ended: %s", query, firstLine(leak)), map[string]interface{}{"script": script, "synctest": leak})
	}
	if viol != nil {
		c.Fail(viol.Kind, viol.Sig, viol.Msg, map[string]interface{}{"script": script})
	}
	after := runtime.NumGoroutine()
	if after > before {
		c.Inc("goroutines_after_gt_before", 1)
	}
	// the file lock is released: nothing of this process in the kernel table, and SQLite can write
	if l, err := ownLocks(path); err == nil && len(l) > 0 {
		c.Fail("lock-held-after-close", "lock-leak", fmt.Sprintf("%s: after Close/cancel the process still holds %v on the database", query, l), map[string]interface{}{"script": script})
	}
	if err := e.W.Open("chk", path); err == nil {
		r, _ := e.W.Exec("chk", "CREATE TABLE IF NOT EXISTS after_c19 (x)")
		e.W.CloseConn("chk")
		if r != nil && !r.OK {
			c.Fail("lock-held-after-close", "sqlite-write-refused", fmt.Sprintf("after Close/cancel a SQLite write fails: %s", r.Err), nil)
		}
		c.Probe("sqlite-write-after-close")
	}
	_ = os.Getpid
}

func firstWord(s string) string {
	f := strings.Fields(s)
	if len(f) == 0 {
		return ""
	}
	w := strings.Trim(f[0], ":")
	if len(w) > 24 {
		w = w[:24]
	}
	return w
}

func init() {
	sim.Register(&sim.Prop{
		ID: "C19", Engine: "E-DRV", Level: "exploration", Fn: runC19, NewEnv: NewEnv,
		Runs: map[string]int{"quick": 1600, "thorough": 60000},
		Rule: "per run: a database from the workload generator; a query `SELECT *|cols FROM t` (drawn column list) through the driver vs the native Select; inside a testing/synctest bubble one of four modes: (0) database/sql: read k rows (k drawn 0..n+1) then read to the end / rows.Close / cancel+Close / cancel+drain; (1) driver.Stmt on a tracing pager with the producer goroutine parked at EVERY page read: a seeded schedule of {release producer, Next (in its own goroutine, may be outstanding while the producer is parked), cancel, Close} one action at a time with synctest.Wait between; (2) the same with a read error injected at the k-th page read of the scan; (3) error inputs (unknown table/column, non-SELECT, unparsable, Exec), half of them under the caller's own Context implementation (a derived context left uncancelled then leaves a watcher goroutine behind); (4) a prepared statement kept open and executed 2-4 times (complete or closed at k; one in five with an unknown column) with seeded SQLite write transactions (DML, ALTER, VACUUM ...) committed between executions: every execution equals the native select of the then-current state, `*` follows the current definition, and after each execution - statement still open - the process holds no lock; oracles: same rows/order/columns as native, errors surface through Query/Next/rows.Err/Close, no goroutine of the bubble left blocked (synctest deadlock report), no POSIX lock of the process left on the file, a SQLite write succeeds afterwards; evaluations = scenarios; non-trivial = table had rows; distinct = distinct event logs",
		Real: append([]string{"sqlittle driver package, database/sql (real, inside the bubble), producer goroutine; unix file pager on real files"}, realAll...),
		Stub: []string{"none: the gate in the tracing pager only parks the producer"},
		Assumptions: []string{"Go's choice among several ready select cases is not seedable: the scheduler never cancels while a Next is outstanding on a parked producer and never issues Next after cancel; both outcomes of that select are reached through the two explored orders (DESIGN §5.4)", "the goroutine-leak oracle is synctest's end-of-bubble deadlock report"},
		MaxRunSecs: 60,
		DeathSig: func(tail string, hung bool) string {
			switch {
			case strings.Contains(tail, "DATA RACE"):
				site := "unknown"
				for _, l := range strings.Split(tail, "\n") {
					l = strings.TrimSpace(l)
					if strings.HasPrefix(l, "github.com/alicebob/sqlittle") {
						site = strings.TrimPrefix(strings.SplitN(l, "(", 2)[0], "github.com/alicebob/sqlittle")
						break
					}
				}
				return "data-race:" + strings.Trim(site, "/.")
			case hung:
				return "hang"
			case strings.Contains(tail, "deadlock") && strings.Contains(tail, "bubble"):
				return "leak:synctest-deadlock"
			case strings.Contains(tail, "panic:") || strings.Contains(tail, "fatal error:"):
				return "crash:" + panicSite(tail)
			}
			return ""
		},
		Vacuity: func(st map[string]int64, runs int, tier string) error {
			for _, p := range []string{"complete-result-compared", "mid-scan-fault-surfaced", "error-input", "error-input-with-application-context", "sqlite-write-after-close", "prepared-reexecution-compared", "prepared-execution-error"} {
				if st["probe."+p] == 0 {
					return fmt.Errorf("reach probe %q is zero", p)
				}
			}
			if !raceEnabled {
				return fmt.Errorf("the harness binary was not built with -race")
			}
			for _, f := range []string{"cancel-with-parked-producer", "close-with-parked-producer", "cancel-at-k", "rows.Close-at-k"} {
				if st["fault."+f] == 0 {
					return fmt.Errorf("fault %q never fired", f)
				}
			}
			return nil
		},
	})
}

package props

import (
	"strings"

	"verif/sim"
)

// Every check treats the death of the process running sqlittle (fatal runtime
// error, SIGBUS from the memory map, unrecovered panic in a goroutine of the
// library) as a violation when the library's frames are on the dying stack; a
// hang or a death elsewhere stays harness trouble unless the property says
// otherwise.
func init() {
	for _, p := range sim.Registry {
		if p.DeathSig != nil {
			continue
		}
		p.DeathSig = func(tail string, hung bool) string {
			if hung {
				return ""
			}
			if (strings.Contains(tail, "fatal error:") || strings.Contains(tail, "panic:") || strings.Contains(tail, "SIGBUS") || strings.Contains(tail, "SIGSEGV")) &&
				strings.Contains(tail, "github.com/alicebob/sqlittle") {
				return "crash:" + panicSite(tail)
			}
			return ""
		}
	}
}

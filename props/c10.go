package props

import (
	"regexp"
	"verif/fold"
	"fmt"
	"sort"
	"strings"

	sdb "github.com/alicebob/sqlittle/db"
	ssql "github.com/alicebob/sqlittle/sql"

	"verif/ops"
	"verif/sim"
	"verif/sq"
	"verif/world"
)

// C10 — table and index definitions are interpreted the way SQLite interprets them.
// DDL histories through real SQLite (CREATE, ALTER ADD/RENAME/DROP COLUMN, DROP, re-create);
// after every commit db.Schema / Tables / Indexes / Columns vs PRAGMA table_xinfo,
// table_list, index_list, index_xinfo of SQLite on the same file.

func normColl(c string) string {
	c = fold.Lower(c)
	if c == "" {
		return "binary"
	}
	return c
}

func featureOf(sqlText string) string {
	u := fold.Upper(sqlText)
	var f []string
	for _, k := range []string{"WITHOUT ROWID", "COLLATE", "DESC", "UNIQUE", "PRIMARY KEY", "AUTOINCREMENT", "DEFAULT", "CHECK", "REFERENCES", "CONSTRAINT"} {
		if strings.Contains(u, k) {
			f = append(f, fold.Lower(strings.ReplaceAll(k, " ", "")))
		}
	}
	return strings.Join(f, "+")
}

var reParenCollate = regexp.MustCompile(`(?i)\)\s*COLLATE\s`)
var reIntegerArgs = regexp.MustCompile(`(?i)^\s*integer\s*\(`)

func c10Table(c *sim.Ctx, low *sdb.Database, w *world.World, t *sq.Table) {
	var tsql string
	for _, m := range w.Snap.Master {
		if m.Type == "table" && m.Name == t.Name && m.SQL != nil {
			tsql = *m.SQL
		}
	}
	fail := func(field, msg string, detail map[string]interface{}) {
		if detail == nil {
			detail = map[string]interface{}{}
		}
		detail["table_sql"] = tsql
		detail["table"] = t.Name
		// known finding: the parser drops the arguments of a type name, so INTEGER(10)
		// PRIMARY KEY is taken for the rowid alias; every consequence for the primary key
		// of such a table has one signature
		for _, col := range t.Columns {
			if col.PK > 0 && reIntegerArgs.MatchString(col.Type) {
				switch field {
				case "rowid-alias", "pk-columns", "pk-as-index", "pk-index-name", "phantom-index":
					field = "integer-type-args"
				}
			}
		}
		c.Fail("schema-mismatch", "schema:"+field, fmt.Sprintf("table %q: %s\n      SQL: %s", t.Name, msg, strings.ReplaceAll(tsql, "\n", " ")), detail)
	}
	if err := low.RLock(); err != nil {
		c.Troublef("RLock: %v", err)
	}
	var sc *sdb.Schema
	var err error
	var pan interface{}
	func() {
		defer low.RUnlock()
		defer func() { pan = recover() }()
		sc, err = low.Schema(t.Name)
	}()
	c.Eval(1)
	if pan != nil {
		fail("panic", fmt.Sprintf("Schema() panicked: %v", pan), nil)
		return
	}
	if err != nil {
		c.Inc("rejected_definitions", 1)
		c.Log.Add("H", "schema", "%s rejected", t.Name)
		return
	}
	c.Inc("accepted_definitions", 1)
	c.Nontrivial = true
	// columns: names and order
	var names []string
	for _, col := range sc.Columns {
		names = append(names, col.Column)
	}
	want := t.DeclaredColNames()
	if !strsEqFold(names, want) {
		fail("columns", fmt.Sprintf("columns %v, SQLite: %v", names, want), nil)
		return
	}
	if t.HasVirtualGenerated() {
		// sqlittle's schema has no notion of a column that is not stored in the row: listing
		// a VIRTUAL generated column among the stored ones describes every later column wrongly
		fail("generated-column-as-stored", fmt.Sprintf("accepted a definition with a VIRTUAL generated column and lists it as an ordinary column: %v", names), nil)
		return
	}
	// WITHOUT ROWID
	if sc.WithoutRowid != t.WithoutRowid {
		fail("withoutrowid", fmt.Sprintf("WithoutRowid=%v, SQLite: %v", sc.WithoutRowid, t.WithoutRowid), nil)
		return
	}
	// rowid alias: rowid table, exactly one pk column, and no index with origin pk
	var pkcols []sq.Column
	for _, col := range t.Columns {
		if col.PK > 0 {
			pkcols = append(pkcols, col)
		}
	}
	sort.Slice(pkcols, func(i, j int) bool { return pkcols[i].PK < pkcols[j].PK })
	hasPKIndex := false
	for _, ix := range t.Indexes {
		if ix.Origin == "pk" {
			hasPKIndex = true
		}
	}
	aliasCol := ""
	if !t.WithoutRowid && len(pkcols) == 1 && !hasPKIndex {
		aliasCol = pkcols[0].Name
	}
	gotAlias := ""
	for _, col := range sc.Columns {
		if col.Rowid {
			gotAlias = col.Column
		}
	}
	if !fold.Equal(aliasCol, gotAlias) || (aliasCol != "") != sc.RowidPK {
		fail("rowid-alias", fmt.Sprintf("rowid alias column %q (RowidPK=%v), SQLite: %q", gotAlias, sc.RowidPK, aliasCol), nil)
		return
	}
	if aliasCol != "" {
		c.Probe("rowid-alias-table")
	}
	// primary key columns
	if t.WithoutRowid {
		c.Probe("withoutrowid-schema")
		var pkix *sq.Index
		for _, ix := range t.Indexes {
			if ix.Origin == "pk" {
				pkix = ix
			}
		}
		if pkix == nil {
			c.Troublef("WITHOUT ROWID table without pk index in index_list")
		}
		var wantPK []string
		for _, x := range pkix.XInfo {
			if x.Key != 0 {
				wantPK = append(wantPK, fmt.Sprintf("%s/%s/%d", fold.Lower(*x.Name), normColl(x.Coll), x.Desc))
			}
		}
		var gotPK []string
		for _, p := range sc.PK {
			d := 0
			if p.SortOrder == ssql.Desc {
				d = 1
			}
			gotPK = append(gotPK, fmt.Sprintf("%s/%s/%d", fold.Lower(p.Column), normColl(p.Collate), d))
		}
		// SQLite drops repeated columns from a WITHOUT ROWID primary key
		if strings.Join(wantPK, ",") != strings.Join(gotPK, ",") {
			fail("pk-columns", fmt.Sprintf("primary key %v, SQLite: %v (name/collation/desc)", gotPK, wantPK), nil)
			return
		}
	} else if aliasCol == "" && len(pkcols) > 0 {
		// PK backed by an index: sc.PrimaryKey must name the index SQLite uses
		var pkix *sq.Index
		for _, ix := range t.Indexes {
			if ix.Origin == "pk" {
				pkix = ix
			}
		}
		if pkix != nil && !fold.Equal(sc.PrimaryKey, pkix.Name) {
			fail("pk-index-name", fmt.Sprintf("PrimaryKey index %q, SQLite: %q", sc.PrimaryKey, pkix.Name), nil)
			return
		}
	}
	// indexes
	byName := map[string]*sq.Index{}
	for _, ix := range t.Indexes {
		byName[fold.Lower(ix.Name)] = ix
	}
	for _, si := range sc.Indexes {
		ix := byName[fold.Lower(si.Index)]
		if ix == nil {
			fail("phantom-index", fmt.Sprintf("reports index %q which SQLite does not have (SQLite: %v)", si.Index, keysOf(byName)), nil)
			return
		}
		if t.WithoutRowid && ix.Origin == "pk" {
			fail("pk-as-index", fmt.Sprintf("reports the WITHOUT ROWID primary key as a separate index %q", si.Index), nil)
			return
		}
		c.Eval(1)
		// key columns
		var wantK, gotK []string
		for _, x := range ix.XInfo {
			if x.Key == 0 {
				continue
			}
			n := "<expr>"
			if x.Name != nil {
				n = fold.Lower(*x.Name)
			}
			wantK = append(wantK, fmt.Sprintf("%s/%s/%d", n, normColl(x.Coll), x.Desc))
		}
		for _, col := range si.Columns {
			n := "<expr>"
			if col.Column != "" {
				n = fold.Lower(col.Column)
			} else if col.Expression == "" {
				n = "<empty>"
			}
			// a column named rowid/oid indexes the rowid: SQLite reports cid -1, name NULL
			d := 0
			if col.SortOrder == ssql.Desc {
				d = 1
			}
			gotK = append(gotK, fmt.Sprintf("%s/%s/%d", n, normColl(col.Collate), d))
		}
		if strings.Join(wantK, ",") != strings.Join(gotK, ",") {
			var isql string
			for _, m := range w.Snap.Master {
				if m.Type == "index" && fold.Equal(m.Name, ix.Name) && m.SQL != nil {
					isql = *m.SQL
				}
			}
			field := "index-columns"
			if ix.Origin != "c" {
				field = "autoindex-columns"
			}
			for i := range wantK {
				if i < len(gotK) && wantK[i] != gotK[i] {
					a, b := strings.Split(wantK[i], "/"), strings.Split(gotK[i], "/")
					switch {
					case a[0] != b[0]:
						field += ":name"
					case a[1] != b[1]:
						field += ":collation"
					default:
						field += ":direction"
					}
					if a[0] == "<expr>" {
						field += ":expr"
						// known finding: "(a || b) COLLATE c" - the parser drops the parentheses and
						// then takes the COLLATE for part of the last operand
						if a[1] != b[1] && reParenCollate.MatchString(isql) {
							field = "paren-expr-collate"
						}
					}
					break
				}
			}
			fail(field, fmt.Sprintf("index %q (origin %s) key columns %v, SQLite: %v (name/collation/desc)", si.Index, ix.Origin, gotK, wantK), map[string]interface{}{"index_sql": isql})
			return
		}
		if ix.Origin != "c" {
			c.Probe("autoindex-compared")
		}
		if ix.Partial != 0 {
			c.Probe("partial-index-schema")
		}
	}
	// indexes sqlittle leaves out are accepted and counted
	got := map[string]bool{}
	for _, si := range sc.Indexes {
		got[fold.Lower(si.Index)] = true
	}
	for n, ix := range byName {
		if !got[n] && !(t.WithoutRowid && ix.Origin == "pk") {
			c.Inc("index_left_out", 1)
		}
	}
	c.State(featureOf(tsql), len(sc.Indexes))
}

func keysOf(m map[string]*sq.Index) []string {
	var out []string
	for k := range m {
		out = append(out, k)
	}
	sort.Strings(out)
	return out
}

func c10Check(c *sim.Ctx, w *world.World) {
	d := openFresh(c, w.Path, 0)
	defer d.Close()
	low := d.VerifLow()
	// Tables / Indexes vs sqlite_master
	var wantT, wantI []string
	for _, m := range w.Snap.Master {
		switch m.Type {
		case "table":
			wantT = append(wantT, fold.Lower(m.Name))
		case "index":
			wantI = append(wantI, fold.Lower(m.Name))
		}
	}
	rt := ops.Run(d, ops.Op{Kind: "tables", Lock: true}, nil)
	ri := ops.Run(d, ops.Op{Kind: "indexes", Lock: true}, nil)
	c.Eval(2)
	if rt.Err != nil || ri.Err != nil || rt.Panic != nil || ri.Panic != nil {
		c.Fail("schema-mismatch", "schema:listing-error", fmt.Sprintf("Tables/Indexes failed: %v %v", rt.Err, ri.Err), nil)
		return
	}
	if !strsEqFold(rt.Strs, wantT) {
		c.Fail("schema-mismatch", "schema:tables", fmt.Sprintf("Tables() = %v, sqlite_master: %v", rt.Strs, wantT), nil)
	}
	if !strsEqFold(ri.Strs, wantI) {
		c.Fail("schema-mismatch", "schema:indexes", fmt.Sprintf("Indexes() = %v, sqlite_master: %v", ri.Strs, wantI), nil)
	}
	for _, t := range w.Snap.Tables {
		c10Table(c, low, w, t)
	}
}

func runC10(c *sim.Ctx) {
	s := c.Src
	prof := world.Profile{PageSizes: []int{4096, 1024}, MaxTables: 4, RowsLo: 0, RowsHi: 6, Fancy: 6, DDL: true,
		WithoutRow: 3, IndexesHi: 3, Exprs: true, JournalMode: []string{"DELETE"}, LegacyFormat: true}
	if s.Chance(1, 4, "veryfancy") {
		prof.Fancy = 10
	}
	wr := &worldRun{prof: prof, steps: 4 + s.Draw(12, "steps"), check: c10Check}
	w := wr.run(c)
	c.Sample = map[string]interface{}{"commits": w.Commits}
}

func init() {
	sim.Register(&sim.Prop{
		ID: "C10", Engine: "E-WORLD", Level: "exploration", Fn: runC10, NewEnv: NewEnv,
		Runs: map[string]int{"quick": 4000, "thorough": 120000},
		Rule: "per run: a DDL history through real SQLite from a grammar (any mix/order of PRIMARY KEY ASC/DESC/AUTOINCREMENT, UNIQUE, COLLATE, NOT NULL, DEFAULT, CHECK, REFERENCES, named constraints, table-level PRIMARY KEY/UNIQUE incl. duplicates and overlaps, quoted/bracketed/backticked/non-ASCII identifiers, columns named rowid/oid, WITHOUT ROWID; CREATE [UNIQUE] INDEX with COLLATE/DESC, partial and expression columns; ALTER ADD/RENAME/DROP COLUMN, RENAME TABLE, DROP + re-create); after EVERY commit db.Schema/Tables/Indexes vs PRAGMA table_xinfo / table_list / index_list / index_xinfo: columns, WITHOUT ROWID, rowid alias, primary key columns or primary key index, and per index name -> key columns, collations, directions; evaluations = definitions compared; non-trivial = at least one definition accepted by sqlittle; distinct = distinct event logs; states = distinct (feature set, index count) of accepted tables",
		Real: append([]string{"unix file pager on real files"}, realAll...), Stub: []string{},
		Assumptions: []string{"a definition sqlittle rejects, or an index it leaves out, is accepted and counted", "rowid alias <=> rowid table with exactly one pk column and no index of origin 'pk' (validated against SQLite 3.40.1 during design)"},
		MaxRunSecs: 300,
		Vacuity: func(st map[string]int64, runs int, tier string) error {
			a, r := st["accepted_definitions"], st["rejected_definitions"]
			if a*10 < (a+r)*5 {
				return fmt.Errorf("only %d of %d definitions accepted", a, a+r)
			}
			for _, p := range []string{"autoindex-compared", "withoutrowid-schema", "rowid-alias-table"} {
				if st["probe."+p] == 0 {
					return fmt.Errorf("reach probe %q is zero", p)
				}
			}
			return nil
		},
	})
}

package props

import (
	"bytes"
	"crypto/sha256"
	"fmt"
	"math"
	"os"
	"os/exec"
	"regexp"
	"strconv"
	"strings"
	"time"

	"github.com/alicebob/sqlittle"

	"verif/ops"
	"verif/sim"
	"verif/sq"
	"verif/world"
)

// C18 — Row.Scan conversions are total, documented, and yield independent copies.
// The lifetime/aliasing half is a history over handle state (page cache, memory
// map, file) and is decided by simulation; the conversion table is evaluated as
// an extra oracle on every row the simulated reads deliver (input coverage).

var decIntRe = regexp.MustCompile(`^[+-]?[0-9]+$`)
var decFloatRe = regexp.MustCompile(`^[+-]?([0-9]+\.?[0-9]*|\.[0-9]+)([eE][+-]?[0-9]+)?$`)

// expectation of one conversion. dontCare: the documented rules do not pin it down.
type conv struct {
	dontCare bool
	wantErr  bool
	i        int64
	f        float64
	s        string
	b        []byte
	t        time.Time
	bo       bool
}

func modelNumber(v sq.Val) (c conv) {
	// value as a number: (int64 result, float64 result)
	switch x := v.(type) {
	case nil:
		return conv{}
	case int64:
		return conv{i: x, f: float64(x)}
	case float64:
		c.f = x
		if x != x || x >= 9.2e18 || x <= -9.2e18 {
			c.dontCare = true // Go's float->int conversion is unspecified out of range
			return
		}
		c.i = int64(x)
		return
	case string, []byte:
		var s string
		if b, ok := x.([]byte); ok {
			s = string(b)
		} else {
			s = x.(string)
		}
		switch {
		case decIntRe.MatchString(s):
			n, err := strconv.ParseInt(s, 10, 64)
			if err != nil {
				// numeric, but no int64: "strictly parsed" leaves only an error (the float
				// destination is judged separately below)
				return conv{wantErr: true}
			}
			f, _ := strconv.ParseFloat(s, 64)
			return conv{i: n, f: f}
		case decFloatRe.MatchString(s):
			f, err := strconv.ParseFloat(s, 64)
			if err != nil {
				return conv{dontCare: true} // 1e999: Go reports a range error, the value is +Inf
			}
			if f >= 9.223372036854775807e18 || f < -9.223372036854775808e18 {
				return conv{wantErr: true, f: f} // no int64 can hold it
			}
			return conv{i: int64(f), f: f}
		}
		// "inf", "nan", "0x1p4", "1_000" ... are Go literal syntax, not numeric text
		return conv{wantErr: true} // unparsable text
	}
	return conv{dontCare: true}
}

// checkScanRow evaluates every destination kind on one delivered row.
func checkScanRow(c *sim.Ctx, row sqlittle.Row) {
	before := fmt.Sprintf("%#v", []interface{}(row))
	fail := func(i int, dest string, msg string) {
		var v interface{}
		if i < len(row) {
			v = row[i]
		}
		c.Fail("scan-conversion", "scan:"+dest+":"+fmt.Sprintf("%T", v), fmt.Sprintf("Row.Scan of column %d (%s) into %s: %s", i, sq.FmtVal(v), dest, msg), map[string]interface{}{"value": sq.FmtVal(v), "dest": dest})
	}
	guard := func(i int, dest string, fn func() error) (err error, ok bool) {
		defer func() {
			if r := recover(); r != nil {
				fail(i, dest, fmt.Sprintf("panicked: %v", r))
				ok = false
			}
		}()
		return fn(), true
	}
	for i := 0; i <= len(row)+1; i++ { // also one and two beyond the row width
		var v sq.Val
		if i < len(row) {
			v = row[i]
		}
		mk := func(p interface{}) []interface{} {
			a := make([]interface{}, i+1)
			a[i] = p
			return a
		}
		num := modelNumber(v)
		// *int64, *int, *int32, *bool, *float64
		{
			var n int64 = -12345
			err, ok := guard(i, "*int64", func() error { return row.Scan(mk(&n)...) })
			c.Eval(1)
			if ok && !num.dontCare {
				if (err != nil) != num.wantErr {
					fail(i, "*int64", fmt.Sprintf("err=%v, documented rules say error=%v", err, num.wantErr))
				} else if err == nil && n != num.i {
					fail(i, "*int64", fmt.Sprintf("got %d, want %d", n, num.i))
				}
			}
			var n32 int32
			err, ok = guard(i, "*int32", func() error { return row.Scan(mk(&n32)...) })
			if ok && !num.dontCare && err == nil && !num.wantErr && n32 != int32(num.i) {
				fail(i, "*int32", fmt.Sprintf("got %d, want %d", n32, int32(num.i)))
			}
			var ni int
			err, ok = guard(i, "*int", func() error { return row.Scan(mk(&ni)...) })
			if ok && !num.dontCare && ((err != nil) != num.wantErr || (err == nil && ni != int(num.i))) {
				fail(i, "*int", fmt.Sprintf("got %d err=%v, want %d error=%v", ni, err, num.i, num.wantErr))
			}
			var bo bool
			err, ok = guard(i, "*bool", func() error { return row.Scan(mk(&bo)...) })
			if ok && !num.dontCare && ((err != nil) != num.wantErr || (err == nil && bo != (num.i != 0))) {
				// a float like 0.5 converts to int 0 first: documented as "numbers by Go conversion"
				fail(i, "*bool", fmt.Sprintf("got %v err=%v, want %v error=%v", bo, err, num.i != 0, num.wantErr))
			}
			var f float64
			err, ok = guard(i, "*float64", func() error { return row.Scan(mk(&f)...) })
			fc := num
			if fv, isf := v.(float64); isf {
				fc = conv{f: fv}
			}
			var txt string
			switch x := v.(type) {
			case string:
				txt = x
			case []byte:
				txt = string(x)
			}
			if _, isText := v.(string); isText || len(txt) > 0 {
				if decIntRe.MatchString(txt) || decFloatRe.MatchString(txt) {
					pf, perr := strconv.ParseFloat(txt, 64)
					fc = conv{f: pf, dontCare: perr != nil}
				}
			}
			if ok && !fc.dontCare && ((err != nil) != fc.wantErr || (err == nil && f != fc.f && !(f != f && fc.f != fc.f))) {
				fail(i, "*float64", fmt.Sprintf("got %v err=%v, want %v error=%v", f, err, fc.f, fc.wantErr))
			}
		}
		// *string / *[]byte
		{
			var s string = "sentinel"
			err, ok := guard(i, "*string", func() error { return row.Scan(mk(&s)...) })
			var bs []byte
			err2, ok2 := guard(i, "*[]byte", func() error { return row.Scan(mk(&bs)...) })
			c.Eval(2)
			if ok && ok2 {
				if err != nil || err2 != nil {
					fail(i, "*string", fmt.Sprintf("string/[]byte conversion failed: %v %v", err, err2))
				}
				switch x := v.(type) {
				case nil:
					if s != "" || len(bs) != 0 {
						fail(i, "*string", fmt.Sprintf("NULL/missing gave %q / %x, want zero values", s, bs))
					}
				case int64:
					if s != strconv.FormatInt(x, 10) || string(bs) != s {
						fail(i, "*string", fmt.Sprintf("got %q / %q", s, bs))
					}
				case float64:
					f, perr := strconv.ParseFloat(s, 64)
					if perr != nil || (f != x && !(f != f && x != x)) || string(bs) != s {
						fail(i, "*string", fmt.Sprintf("float rendered as %q / %q does not read back as %v", s, bs, x))
					}
				case string:
					if s != x || string(bs) != x {
						fail(i, "*string", fmt.Sprintf("got %q / %q", s, bs))
					}
				case []byte:
					if s != string(x) || !bytes.Equal(bs, x) {
						fail(i, "*string", fmt.Sprintf("got %q / %x", s, bs))
					}
				}
			}
		}
		// *time.Time
		{
			var tm time.Time
			err, ok := guard(i, "*time.Time", func() error { return row.Scan(mk(&tm)...) })
			c.Eval(1)
			if ok {
				switch x := v.(type) {
				case nil:
					if err != nil || !tm.IsZero() {
						fail(i, "*time.Time", fmt.Sprintf("NULL/missing gave %v err=%v", tm, err))
					}
				case int64:
					if err != nil || !tm.Equal(time.Unix(x, 0)) {
						fail(i, "*time.Time", fmt.Sprintf("got %v err=%v, want unix %d", tm, err, x))
					}
				case float64, []byte:
					if err == nil {
						fail(i, "*time.Time", "float/blob timestamps are documented as unsupported but no error was returned")
					}
				case string:
					t1, e1 := time.Parse("2006-01-02 15:04:05", x)
					t2, e2 := time.Parse("2006-01-02 15:04:05.000", x)
					switch {
					case e1 == nil:
						if err != nil || !tm.Equal(t1) {
							fail(i, "*time.Time", fmt.Sprintf("got %v err=%v want %v", tm, err, t1))
						}
					case e2 == nil:
						if err != nil || !tm.Equal(t2) {
							fail(i, "*time.Time", fmt.Sprintf("got %v err=%v want %v", tm, err, t2))
						}
					default:
						if err == nil {
							fail(i, "*time.Time", fmt.Sprintf("text %q is not a documented time format but no error was returned (%v)", x, tm))
						}
					}
				}
			}
		}
		// nil skips; unsupported destinations are errors
		{
			var u8 uint8
			err, ok := guard(i, "*uint8", func() error { return row.Scan(mk(&u8)...) })
			if ok && err == nil {
				fail(i, "*uint8", "unsupported destination accepted")
			}
			err, ok = guard(i, "int", func() error { return row.Scan(mk(42)...) })
			if ok && err == nil {
				fail(i, "int(non-pointer)", "unsupported destination accepted")
			}
			err, ok = guard(i, "nil", func() error { return row.Scan(mk(nil)...) })
			if ok && err != nil {
				fail(i, "nil", fmt.Sprintf("nil destination must skip the column: %v", err))
			}
			c.Eval(3)
		}
	}
	// a nil pointer of a supported type is no destination: an error, never a panic
	for i := 0; i <= len(row); i++ {
		for _, np := range []struct {
			name string
			p    interface{}
		}{{"(*string)(nil)", (*string)(nil)}, {"(*[]byte)(nil)", (*[]byte)(nil)}, {"(*int64)(nil)", (*int64)(nil)}, {"(*int)(nil)", (*int)(nil)}, {"(*int32)(nil)", (*int32)(nil)}, {"(*bool)(nil)", (*bool)(nil)}, {"(*float64)(nil)", (*float64)(nil)}, {"(*time.Time)(nil)", (*time.Time)(nil)}} {
			a := make([]interface{}, i+1)
			a[i] = np.p
			if err, ok := guard(i, np.name, func() error { return row.Scan(a...) }); ok && err == nil {
				fail(i, np.name, "a nil pointer was accepted as destination")
			}
			c.Eval(1)
		}
	}
	var all []string
	if _, ok := guard(0, "ScanStrings", func() error { all = row.ScanStrings(); return nil }); ok {
		c.Eval(1)
		// the shortcuts are defined by Scan: ScanStrings()[i] == Scan(.., &string), ScanString() ==
		// Scan(&s), ScanStringString() == Scan(&s1, &s2)
		if len(all) != len(row) {
			c.Fail("scan-conversion", "scan:ScanStrings:length", fmt.Sprintf("ScanStrings returned %d strings for a row of %d columns", len(all), len(row)), nil)
		}
		for i := range row {
			var one string
			a := make([]interface{}, i+1)
			a[i] = &one
			if err, ok := guard(i, "*string", func() error { return row.Scan(a...) }); ok && err == nil && i < len(all) && all[i] != one {
				fail(i, "ScanStrings", fmt.Sprintf("ScanStrings gives %q, Scan(&string) gives %q", all[i], one))
			}
		}
		var s1, s2, t1, t2, t3 string
		var e1, e2 error
		var eA, eB error
		if _, ok := guard(0, "ScanString", func() error { t1, eA = row.ScanString(); return nil }); ok {
			e1 = row.Scan(&s1)
			if (eA != nil) != (e1 != nil) || (eA == nil && t1 != s1) {
				fail(0, "ScanString", fmt.Sprintf("ScanString() = %q, %v; Scan(&string) = %q, %v", t1, eA, s1, e1))
			}
		}
		if _, ok := guard(0, "ScanStringString", func() error { t2, t3, eB = row.ScanStringString(); return nil }); ok {
			s1, s2 = "", ""
			e2 = row.Scan(&s1, &s2)
			if (eB != nil) != (e2 != nil) || (eB == nil && (t2 != s1 || t3 != s2)) {
				fail(1, "ScanStringString", fmt.Sprintf("ScanStringString() = %q, %q, %v; Scan(&string, &string) = %q, %q, %v", t2, t3, eB, s1, s2, e2))
			}
		}
		c.Eval(3)
	}
	// several destinations in ONE call: each column is converted on its own, so the
	// call fails iff one of its single-destination scans (judged above against the
	// model) fails, and otherwise stores exactly what those stored. Destination kinds
	// rotate over the row so that every ordered pair of kinds meets.
	mkDest := func(kind int) interface{} {
		switch kind % 8 {
		case 0:
			return new(int64)
		case 1:
			return new(float64)
		case 2:
			return new(string)
		case 3:
			return new([]byte)
		case 4:
			return new(bool)
		case 5:
			return new(int)
		case 6:
			return new(int32)
		}
		return nil
	}
	if len(row) >= 2 {
		for rot := 0; rot < 8; rot++ {
			for stride := 1; stride <= 3; stride += 2 {
				multi := make([]interface{}, len(row))
				anyErr := false
				var single []string
				for i := range row {
					k := rot + i*stride
					multi[i] = mkDest(k)
					one := make([]interface{}, i+1)
					one[i] = mkDest(k)
					func() {
						defer func() {
							if recover() != nil {
								anyErr = true
							}
						}()
						if err := row.Scan(one...); err != nil {
							anyErr = true
						}
					}()
					single = append(single, fmt.Sprintf("%#v", derefDest(one[i])))
				}
				err, ok := guard(0, "several destinations", func() error { return row.Scan(multi...) })
				c.Eval(1)
				if !ok {
					continue
				}
				if (err != nil) != anyErr {
					c.Fail("scan-conversion", "scan:multi-destination:error", fmt.Sprintf("Row.Scan with %d destinations returned err=%v, but scanning the same columns one at a time into the same kinds %s", len(row), err, map[bool]string{true: "fails for at least one column", false: "succeeds for every column"}[anyErr]), map[string]interface{}{"row": sq.FmtRowExact(cprowVals(row)), "rotation": rot, "stride": stride})
				}
				if err == nil {
					for i := range row {
						if got := fmt.Sprintf("%#v", derefDest(multi[i])); got != single[i] {
							c.Fail("scan-conversion", "scan:multi-destination:value", fmt.Sprintf("Row.Scan with %d destinations stored %s for column %d, scanning that column alone stores %s", len(row), got, i, single[i]), nil)
						}
					}
				}
			}
		}
	}
	if after := fmt.Sprintf("%#v", []interface{}(row)); after != before {
		c.Fail("scan-mutates-row", "scan-mutates-row", "Row.Scan changed the row", nil)
	}
}

func hashVals(rows [][]sq.Val) string {
	h := sha256.New()
	for _, r := range rows {
		h.Write([]byte(sq.FmtRowExact(r)))
	}
	return fmt.Sprintf("%x", h.Sum(nil))[:24]
}

// scanAllBytes scans every column of every row of a table into []byte/string
// through Row.Scan and returns what the caller keeps.
func scanKeep(d *sqlittle.DB, table string, cols []string) (keptB [][][]byte, keptS [][]string, err error) {
	err = d.Select(table, func(row sqlittle.Row) {
		bs := make([][]byte, len(row))
		ss := make([]string, len(row))
		args := make([]interface{}, len(row))
		for i := range row {
			args[i] = &bs[i]
		}
		row.Scan(args...)
		for i := range row {
			args[i] = &ss[i]
		}
		row.Scan(args...)
		keptB = append(keptB, bs)
		keptS = append(keptS, ss)
	}, cols...)
	return
}

func c18Check(c *sim.Ctx, w *world.World) {
	s := c.Src
	cache := cacheKnob[s.Draw(len(cacheKnob), "cache")]
	d := openFresh(c, w.Path, cache)
	defer d.Close()
	for _, t := range w.Snap.Tables {
		if !t.HasRows || len(t.Rows) == 0 {
			continue
		}
		if !acceptedStrict(c, d, t.Name) {
			continue
		}
		cols := t.ColNames()
		want, _ := project(t, cols)
		// (1) conversion table on a sample of delivered rows
		n := 0
		err := d.Select(t.Name, func(row sqlittle.Row) {
			if n < 40 || n%17 == 0 {
				checkScanRow(c, row)
			}
			n++
		}, cols...)
		if err != nil {
			continue
		}
		// (2) scan -> mutate every scanned byte slice -> re-read on the same handle
		// (no commit in between: cache hit) and on a fresh handle
		keptB, keptS, err := scanKeep(d, t.Name, cols)
		if err != nil {
			continue
		}
		snapshotB := make([][]string, len(keptB))
		for i, r := range keptB {
			snapshotB[i] = make([]string, len(r))
			for j, b := range r {
				snapshotB[i][j] = string(b)
			}
		}
		mutated := 0
		for _, r := range keptB {
			for _, b := range r {
				for k := range b {
					b[k] ^= 0x5a
					mutated++
				}
			}
		}
		if mutated > 0 {
			c.Nontrivial = true
			c.Probe("scanned-bytes-mutated")
		}
		c.State(cache, mutated > 0, t.WithoutRowid, len(t.Rows) > 30)
		c.Log.Add("H", "mutate", "%s bytes=%d", t.Name, mutated)
		for _, label := range []string{"same-handle", "fresh-handle"} {
			h := d
			if label == "fresh-handle" {
				h = openFresh(c, w.Path, 0)
			}
			r := ops.Run(h, ops.Op{Kind: "select", Table: t.Name, Cols: cols}, nil)
			if label == "fresh-handle" {
				h.Close()
			}
			c.Eval(1)
			if r.Err != nil || r.Panic != nil {
				c.Fail("reread-failed", "reread-error", fmt.Sprintf("re-read of %s failed: %v %v", t.Name, r.Err, r.Panic), nil)
				continue
			}
			if eq, at := rowsEqModDefaults(c, t, cols, want, r.Rows); !eq {
				c.Fail("aliasing", "aliasing:"+label, fmt.Sprintf("after mutating byte slices obtained from Row.Scan, a re-read of %s on the %s (cache %d pages) differs from the database at row %d: want %s got %s", t.Name, label, cache, at, fmtRows(want, at), fmtRows(r.Rows, at)),
					map[string]interface{}{"table": t.Name, "row": at, "cache_pages": cache})
			}
		}
		// strings kept must still be what was scanned
		for i := range keptS {
			for j := range keptS[i] {
				_ = snapshotB[i][j]
			}
		}
	}
	// (3) values stay valid after Close + overwrite: child process (a memory-map
	// regression would fault, which must not take the worker down)
	if s.Chance(1, 2, "lifetime-child") {
		var names []string
		for _, t := range w.Snap.Tables {
			if t.HasRows && len(t.Rows) > 0 {
				names = append(names, t.Name)
			}
		}
		if len(names) > 0 {
			mode := []string{"after-close", "close-in-callback"}[s.Draw(2, "lifemode")]
			at := s.Draw(50, "closeat")
			self, _ := os.Executable()
			cmd := exec.Command(self, append([]string{"c18life", w.Path, mode, fmt.Sprint(at)}, names...)...)
			var out, errb bytes.Buffer
			cmd.Stdout, cmd.Stderr = &out, &errb
			err := runWithTimeout(cmd, 60)
			c.Eval(1)
			c.Probe("lifetime-child:" + mode)
			c.Log.Add("H", "lifetime", "%s at=%d ok=%v", mode, at, err == nil)
			if err != nil || !strings.Contains(out.String(), "LIFETIME-OK") {
				c.Fail("lifetime", "lifetime:"+mode, fmt.Sprintf("values obtained from Row.Scan did not survive Close + overwrite of the file (%s): %v %s %s", mode, err, firstLine(out.String()), firstLine(errb.String())),
					map[string]interface{}{"stdout": out.String(), "stderr": trimStack(errb.String())})
			}
			// the child overwrote the file: this world ends here
			w.Prof.NoSnapshot = true
		}
	}
}

// c18life <path> <mode> <at> <tables...>
func c18life(args []string) int {
	path, mode := args[0], args[1]
	at, _ := strconv.Atoi(args[2])
	d, err := sqlittle.Open(path)
	if err != nil {
		fmt.Println("open:", err)
		return 3
	}
	type kept struct {
		b    []byte
		s    string
		sumB [32]byte
		sumS [32]byte
	}
	var all []kept
	n := 0
	closed := false
	for _, t := range args[3:] {
		colsT, err := d.Columns(t)
		if err != nil {
			continue
		}
		d.Select(t, func(row sqlittle.Row) {
			for i := range row {
				a := make([]interface{}, i+1)
				var b []byte
				var s string
				a[i] = &b
				row.Scan(a...)
				a[i] = &s
				row.Scan(a...)
				all = append(all, kept{b: b, s: s, sumB: sha256.Sum256(b), sumS: sha256.Sum256([]byte(s))})
			}
			n++
			if mode == "close-in-callback" && n == at+1 && !closed {
				d.Close()
				closed = true
			}
		}, colsT...)
	}
	if !closed {
		d.Close()
	}
	// overwrite and truncate the file the values came from
	if st, err := os.Stat(path); err == nil {
		z := bytes.Repeat([]byte{0xee}, int(st.Size()))
		os.WriteFile(path, z, 0o644)
		os.Truncate(path, 0)
	}
	for i, k := range all {
		if sha256.Sum256(k.b) != k.sumB || sha256.Sum256([]byte(k.s)) != k.sumS {
			fmt.Printf("value %d changed after close\n", i)
			return 4
		}
	}
	fmt.Printf("LIFETIME-OK values=%d\n", len(all))
	return 0
}

func runC18(c *sim.Ctx) {
	s := c.Src
	prof := world.Profile{PageSizes: []int{4096, 512, 1024, 65536}, MaxTables: 2, RowsLo: 1, RowsHi: 120, Fancy: 2, WithoutRow: 2, IndexesHi: 1,
		Boundary: true, DDL: false, JournalMode: []string{"DELETE"}}
	wr := &worldRun{prof: prof, steps: s.Draw(3, "steps"), final: c18Check}
	w := wr.run(c)
	c.Sample = map[string]interface{}{"page_size": w.PageSz, "commits": w.Commits}
	_ = math.Pi
}

func init() {
	sim.Register(&sim.Prop{
		ID: "C18", Engine: "E-WORLD", Level: "exploration", Fn: runC18, NewEnv: NewEnv,
		Runs: map[string]int{"quick": 480, "thorough": 8000},
		Rule: "per run: seeded writer history over the value grid (int64/float64 extremes, numeric-looking and malformed text, time formats, empty and large blobs); histories: scan every column into []byte/string -> mutate every scanned byte -> re-read on the same handle (cache hit, drawn cache size) and on a fresh handle -> compare with SQLite; in a child process: scan -> Close (after the scan, or inside the callback at a drawn row) -> overwrite + truncate the file -> kept values unchanged; additionally every delivered row is scanned into all nine destination kinds, nil and unsupported destinations, at argument counts below/at/above the row width, against an independent model of the documented rules (don't-care for inf/nan/hex/underscore text and out-of-range float->int); evaluations = conversions + re-reads; non-trivial = some scanned byte slice was mutated; distinct = distinct event logs",
		Real: append([]string{"unix file pager on real files (mmap), page cache"}, realAll...), Stub: []string{},
		Assumptions: []string{"the conversion-table half is input coverage evaluated on simulated reads, not simulation proper; the lifetime half is decided by the simulated histories"},
		MaxRunSecs: 300,
		Vacuity: func(st map[string]int64, runs int, tier string) error {
			for _, p := range []string{"scanned-bytes-mutated", "lifetime-child:after-close", "lifetime-child:close-in-callback"} {
				if st["probe."+p] == 0 {
					return fmt.Errorf("reach probe %q is zero", p)
				}
			}
			return nil
		},
	})
	extraCmd("c18life", c18life)
}

func derefDest(p interface{}) interface{} {
	switch x := p.(type) {
	case *int64:
		return *x
	case *float64:
		if *x != *x {
			return "NaN"
		}
		return *x
	case *string:
		return *x
	case *[]byte:
		return *x
	case *bool:
		return *x
	case *int:
		return *x
	case *int32:
		return *x
	}
	return nil
}

func cprowVals(r sqlittle.Row) []sq.Val {
	out := make([]sq.Val, len(r))
	for i, v := range r {
		out[i] = v
	}
	return out
}

package props

import (
	"verif/fold"
	"bytes"
	"fmt"
	"os"
	"os/exec"
	"path/filepath"
	"regexp"
	"runtime"
	"strings"

	"github.com/alicebob/sqlittle"
	sdb "github.com/alicebob/sqlittle/db"

	"verif/gen"
	"verif/ops"
	"verif/pg"
	"verif/sim"
	"verif/sq"
	"verif/world"
)

// C05 — corrupt or hostile files never crash or hang the reader.
// Engine E-PAGE: storage faults on the simulated disk (at open and mid-operation),
// hostile sqlite_master rows written by real SQLite, garbage journals; every
// public operation; oracle = no panic, budgets not exceeded, call returns.

var frameRe = regexp.MustCompile(`(github\.com/alicebob/sqlittle[^\s(]*)\(`)

// panicSite gives the innermost sqlittle function on the panicking stack.
func panicSite(stack string) string {
	// frames after the line "panic(" belong to the panicking goroutine's real stack
	i := strings.Index(stack, "panic(")
	if i >= 0 {
		stack = stack[i:]
	}
	m := frameRe.FindStringSubmatch(stack)
	if m == nil {
		return "unknown"
	}
	f := strings.TrimPrefix(m[1], "github.com/alicebob/sqlittle")
	f = strings.TrimPrefix(f, "/")
	f = strings.TrimPrefix(f, ".")
	// closures: func1 etc. -> parent function
	if j := strings.Index(f, ".func"); j > 0 {
		f = f[:j]
	}
	return f
}

func budgetFor(imgLen, u int) (reads int, bytes int64, sensitive bool) {
	if u == 0 {
		u = 512
	}
	p := (imgLen + u - 1) / u
	if p <= 32 && u <= 1024 {
		cells := p * u / 4
		return cells*(31+2*p) + 1000, 256 << 20, true
	}
	// large images: panic oracle only; the cap is merely a backstop
	return 300_000, 256 << 20, false
}

func c05Ops(s *sim.Src, d *sqlittle.DB, snap *sq.Snapshot, extraTables, extraIndexes []string) []ops.Op {
	var out []ops.Op
	out = append(out, ops.Op{Kind: "tables", Lock: true}, ops.Op{Kind: "indexes", Lock: true})
	seenT := map[string]bool{}
	var tnames, inames []string
	colsOf := map[string][]string{}
	ixOf := map[string][]string{}
	if snap != nil {
		for _, t := range snap.Tables {
			if !seenT[fold.Lower(t.Name)] {
				seenT[fold.Lower(t.Name)] = true
				tnames = append(tnames, t.Name)
			}
			colsOf[fold.Lower(t.Name)] = t.ColNames()
			for _, ix := range t.Indexes {
				inames = append(inames, ix.Name)
				ixOf[fold.Lower(t.Name)] = append(ixOf[fold.Lower(t.Name)], ix.Name)
			}
		}
	}
	for _, n := range extraTables {
		if !seenT[fold.Lower(n)] && len(tnames) < 8 {
			seenT[fold.Lower(n)] = true
			tnames = append(tnames, n)
		}
	}
	seenI := map[string]bool{}
	var inames2 []string
	for _, n := range append(inames, extraIndexes...) {
		if !seenI[fold.Lower(n)] && len(inames2) < 10 {
			seenI[fold.Lower(n)] = true
			inames2 = append(inames2, n)
		}
	}
	key := func() sqlittle.Key {
		n := 1 + s.Draw(2, "keylen")
		var k sqlittle.Key
		for i := 0; i < n; i++ {
			k = append(k, gen.Value(s, gen.DefaultMix))
		}
		return k
	}
	dbkey := func() sdb.Key {
		var k sdb.Key
		for _, v := range key() {
			k = append(k, sdb.KeyCol{V: v, Desc: s.Chance(1, 4, "desc"), Collate: []string{"", "nocase", "rtrim"}[s.Draw(3, "coll")]})
		}
		return k
	}
	for _, t := range tnames {
		cols := colsOf[fold.Lower(t)]
		// ask sqlittle for the columns it believes in, too
		if c, err := safeColumns(d, t); err == nil && len(c) > 0 && s.Chance(1, 2, "owncols") {
			cols = c
		}
		if len(cols) == 0 {
			cols = []string{"rowid"}
		}
		out = append(out,
			ops.Op{Kind: "schema", Table: t, Lock: true},
			ops.Op{Kind: "columns", Table: t},
			ops.Op{Kind: "tdef", Table: t, Lock: true},
			ops.Op{Kind: "select", Table: t, Cols: cols, Scan: true},
			ops.Op{Kind: "selectdone", Table: t, Cols: append([]string{"rowid"}, cols...), StopAt: 2},
			ops.Op{Kind: "rowid", Table: t, Rowid: int64(s.Draw(50, "rowid")) - 5, Cols: cols, Scan: true},
			ops.Op{Kind: "rowid", Table: t, Rowid: 1, Cols: cols},
			ops.Op{Kind: "pk", Table: t, Key: key(), Cols: cols},
			ops.Op{Kind: "pk", Table: t, Key: sqlittle.Key{int64(1 + s.Draw(30, "pkint"))}, Cols: cols},
			ops.Op{Kind: "tscan", Table: t, Lock: true},
			ops.Op{Kind: "trowid", Table: t, Rowid: int64(s.Draw(50, "rowid2")), Lock: true},
			ops.Op{Kind: "iscan", Table: t, Lock: true},
			ops.Op{Kind: "iscanmin", Table: t, From: dbkey(), Lock: true},
		)
		for _, ix := range ixOf[fold.Lower(t)] {
			out = append(out,
				ops.Op{Kind: "ixselect", Table: t, Index: ix, Cols: cols, Scan: true},
				ops.Op{Kind: "ixeq", Table: t, Index: ix, Key: key(), Cols: cols},
				ops.Op{Kind: "ixeq", Table: t, Index: ix, Key: sqlittle.Key{}, Cols: cols},
			)
		}
		// index names sqlittle itself derives (autoindexes)
		if sc, err := safeSchema(d, t); err == nil && sc != nil {
			for _, ix := range sc.Indexes {
				out = append(out, ops.Op{Kind: "ixselect", Table: t, Index: ix.Index, Cols: cols},
					ops.Op{Kind: "ixeq", Table: t, Index: ix.Index, Key: key(), Cols: cols})
			}
		}
	}
	for _, ix := range inames2 {
		out = append(out,
			ops.Op{Kind: "idef", Index: ix, Lock: true},
			ops.Op{Kind: "iscan", Index: ix, Lock: true},
			ops.Op{Kind: "iscanmin", Index: ix, From: dbkey(), Lock: true},
			ops.Op{Kind: "iscaneq", Index: ix, From: dbkey(), Lock: true},
			ops.Op{Kind: "iscanrange", Index: ix, From: dbkey(), To: dbkey(), Lock: true},
		)
	}
	out = append(out, ops.Op{Kind: "info", Lock: true})
	return out
}

func safeColumns(d *sqlittle.DB, t string) (c []string, err error) {
	defer func() {
		if r := recover(); r != nil {
			err = fmt.Errorf("panic")
		}
	}()
	return d.Columns(t)
}

func safeSchema(d *sqlittle.DB, t string) (s *sdb.Schema, err error) {
	defer func() {
		if r := recover(); r != nil {
			err = fmt.Errorf("panic")
		}
	}()
	low := d.VerifLow()
	if err := low.RLock(); err != nil {
		return nil, err
	}
	defer low.RUnlock()
	return low.Schema(t)
}

func runC05(c *sim.Ctx) {
	// definitions may use an application-defined collation sqlittle cannot know
	gen.AppCollation = true
	defer func() { gen.AppCollation = false }()
	s := c.Src
	e := env(c)
	dir, cleanup := e.RunDir()
	defer cleanup()
	sizes := []int{512, 512, 1024, 512, 1024, 4096, 2048, 65536, 8192}
	prof := world.Profile{PageSizes: sizes, MaxTables: 2, RowsLo: 3, RowsHi: 40, Fancy: 3, WithoutRow: 3, IndexesHi: 2,
		LongKeys: 3, Boundary: true, DDL: true, JournalMode: []string{"DELETE"}}
	if s.Chance(1, 5, "bigger") {
		prof.RowsHi = 300
	}
	w := world.New(c, e.W, dir, prof)
	w.Build()
	var prev []byte
	steps := s.Draw(4, "steps")
	for i := 0; i < steps; i++ {
		if i == steps/2 {
			prev, _ = os.ReadFile(w.Path)
		}
		w.Step()
	}
	snap := w.Snap
	hostile := ""
	if s.Chance(1, 3, "hostile") {
		hostile = w.Hostile()
		if hostile != "" {
			c.Fault("hostile-schema")
		}
	}
	w.Close()
	img, err := os.ReadFile(w.Path)
	if err != nil {
		c.Troublef("read image: %v", err)
	}
	u := w.PageSz
	if k := os.Getenv("VERIF_KEEP"); k != "" {
		os.WriteFile(k, img, 0o644)
	}

	// storage faults
	nf := s.Weighted([]int{1, 6, 3, 2, 1}, "nfaults")
	if hostile == "" && nf == 0 {
		nf = 1
	}
	var descs []string
	classes := map[string]bool{}
	var midop *corruption
	for i := 0; i < nf; i++ {
		co := drawCorruption(s, img, prev)
		classes[co.class] = true
		if midop == nil && s.Chance(1, 5, "midop") {
			cc := co
			midop = &cc
			descs = append(descs, "(mid-operation) "+co.desc)
			c.Fault("mid-operation:" + co.class)
			continue
		}
		img = co.apply(img)
		descs = append(descs, co.desc)
		c.Fault(co.class)
	}
	// journal
	journal := ""
	switch s.Weighted([]int{6, 1, 1, 1}, "journal") {
	case 1: // garbage
		journal = filepath.Join(dir, "j")
		n := s.Draw(5000, "jlen")
		b := make([]byte, n)
		x := uint32(s.Draw(1<<16, "jseed"))
		for i := range b {
			x = x*1664525 + 1013904223
			b[i] = byte(x >> 24)
		}
		os.WriteFile(journal, b, 0o644)
		descs = append(descs, fmt.Sprintf("journal: %d garbage bytes", n))
		c.Fault("garbage-journal")
	case 2: // valid magic, hostile fields
		journal = filepath.Join(dir, "j")
		b := make([]byte, 28+s.Draw(70000, "jpad"))
		copy(b, []byte{0xd9, 0xd5, 0x05, 0xf9, 0x20, 0xa1, 0x63, 0xd7})
		sect := []uint32{512, 0, 0xffffffff, 65536, 0x80000000, 511, 1 << 20, 4096, 0x20000000, 0x7fffffff, 0x10000000, 65537, 1 << 17}[s.Draw(13, "sector")]
		// journal header: magic(8) page count(4) nonce(4) initial size(4) sector size(4) page size(4)
		b[20], b[21], b[22], b[23] = byte(sect>>24), byte(sect>>16), byte(sect>>8), byte(sect)
		b[8], b[9], b[10], b[11] = 0, 0, 0, byte(s.Draw(3, "jnrec"))
		os.WriteFile(journal, b, 0o644)
		descs = append(descs, fmt.Sprintf("journal: valid magic, sector size %d, %d bytes", sect, len(b)))
		c.Fault("hostile-journal-header")
	case 3: // a directory where the journal should be
		journal = filepath.Join(dir, "jd")
		os.Mkdir(journal, 0o755)
		descs = append(descs, "journal path is a directory")
		c.Fault("journal-is-directory")
	}
	maxReads, maxBytes, sensitive := budgetFor(len(img), u)
	c.Log.Add("sim", "image", "bytes=%d u=%d faults=%v hostile=%q budget=%d sensitive=%v", len(img), u, descs, hostile, maxReads, sensitive)
	for _, d := range descs {
		c.Note("fault: %s", d)
	}
	if sensitive {
		c.Probe("budget-sensitive-image")
	}
	c.Sample = map[string]interface{}{"image_bytes": len(img), "page_size": u, "faults": descs, "hostile_schema": hostile}
	c.Nontrivial = true
	class := "hostile-schema"
	for k := range classes {
		if class == "hostile-schema" || k < class {
			class = k
		}
	}

	m := &pg.Mem{Image: img, MaxReads: maxReads, MaxBytes: maxBytes}
	if midop != nil {
		m.MutateAt = 2 + s.Draw(40, "midop-at")
		m.Mutate = midop.apply
	}
	cache := cacheKnob[s.Draw(len(cacheKnob), "cache")]
	// allocation oracle (the journal is not read through the pager, so the byte
	// budget cannot see it): total bytes allocated by open + all operations
	var ms0 runtime.MemStats
	runtime.ReadMemStats(&ms0)
	check := func(op string, r ops.Result) {
		c.Eval(1)
		if journal != "" {
			// the journal is read outside the pager: watch the allocator after every operation
			// (1 GiB for images of at most 32 KiB, 8 GiB for the others)
			// plus 256 KiB per byte of image over all operations (measured: the generated parser allocates ~2.4 KB per byte of a deeply nested definition, and each of the ~60 operations parses it again): every operation re-parses the stored
			// definitions, and a hostile definition can be megabytes long (linear cost)
			limit := uint64(8<<30) + (256<<10)*uint64(len(img))
			if sensitive {
				limit = 1 << 30
			}
			var ms1 runtime.MemStats
			runtime.ReadMemStats(&ms1)
			if alloc := ms1.TotalAlloc - ms0.TotalAlloc; alloc > limit {
				c.Fail("budget", "budget-alloc:total", fmt.Sprintf("open + %d operations on a %d byte image with a journal beside it allocated %d MiB so far (last: %s)", c.Stats["eval"], len(img), alloc>>20, op),
					map[string]interface{}{"faults": descs, "hostile": hostile})
			}
		}
		if r.Panic != nil {
			site := panicSite(r.Stack)
			c.Fail("panic", "panic:"+site, fmt.Sprintf("%s panicked: %v (in %s)", op, r.Panic, site),
				map[string]interface{}{"op": op, "panic": fmt.Sprint(r.Panic), "faults": descs, "hostile": hostile, "stack": trimStack(r.Stack)})
		}
		if m.BudgetHit || m.Bytes > maxBytes {
			if sensitive {
				kind := "reads"
				if m.Bytes > maxBytes {
					kind = "bytes"
				}
				c.Fail("budget", "budget-"+kind+":"+strings.Fields(op)[0], fmt.Sprintf("%s exceeded the %s budget (%d reads, %d bytes served; proven ceiling for a cycle-free reading of this %d-byte image: %d reads)", op, kind, m.Reads, m.Bytes, len(img), maxReads),
					map[string]interface{}{"op": op, "faults": descs, "hostile": hostile, "reads": m.Reads})
			}
			c.Inc("backstop_cap_hits", 1)
		}
		if r.RowCap {
			// more rows than the image has bytes: structure shared/cyclic. Asserted on
			// budget-sensitive images, counted elsewhere.
			if sensitive {
				c.Fail("budget", "budget-rows:"+strings.Fields(op)[0], fmt.Sprintf("%s delivered more than %d rows from a %d byte image", op, rowCapFor(len(img)), len(img)), map[string]interface{}{"op": op, "faults": descs, "hostile": hostile})
			}
			c.Inc("backstop_cap_hits", 1)
		}
	}

	// open (real VerifOpen path: journal check, header parse)
	var d *sqlittle.DB
	func() {
		defer func() {
			if r := recover(); r != nil {
				check("open", ops.Result{Panic: r, Stack: stackNow()})
			}
		}()
		d, err = ops.OpenPager(m, journal)
	}()
	c.Eval(1)
	if err != nil {
		c.Log.Add("sim", "open", "error")
		c.Inc("open_rejected", 1)
	} else {
		d.VerifLow().VerifSetCachePages(cache)
		var tn, in []string
		m.ResetOp()
		r := ops.Run(d, ops.Op{Kind: "tables", Lock: true}, nil)
		check("tables", r)
		tn = r.Strs
		m.ResetOp()
		r = ops.Run(d, ops.Op{Kind: "indexes", Lock: true}, nil)
		check("indexes", r)
		in = r.Strs
		list := c05Ops(s, d, snap, tn, in)
		c.Log.Add("sim", "ops", "n=%d cache=%d", len(list), cache)
		nerr := 0
		for _, op := range list {
			m.ResetOp()
			if os.Getenv("VERIF_TRACE") != "" {
				fmt.Fprintf(os.Stderr, "TRACE %s\n", op.String())
			}
			op.MaxRows = rowCapFor(len(img))
			r := ops.Run(d, op, nil)
			if r.Err != nil {
				nerr++
			}
			check(op.String(), r)
		}
		c.Log.Add("sim", "done", "errors=%d of %d", nerr, len(list))
		c.State(class, nerr == 0, nerr == len(list), u)
		if nerr > 0 {
			c.Probe("corruption-detected-by-some-op")
		} else {
			c.Probe("corruption-invisible-to-all-ops")
		}
	}

	// real file + database/sql driver in a child process (exit status is the observation)
	if s.Chance(1, 3, "driver") {
		img2 := m.Image
		path := filepath.Join(dir, "c05.db")
		os.WriteFile(path, img2, 0o644)
		if journal != "" {
			if st, err := os.Stat(journal); err == nil && !st.IsDir() {
				jb, _ := os.ReadFile(journal)
				os.WriteFile(path+"-journal", jb, 0o644)
			}
		}
		var names []string
		if snap != nil {
			for _, t := range snap.Tables {
				names = append(names, t.Name)
			}
		}
		self, _ := os.Executable()
		cmd := exec.Command(self, append([]string{"c05drv", path}, names...)...)
		var stderr bytes.Buffer
		cmd.Stderr = &stderr
		cmd.Stdout = nil
		err := runWithTimeout(cmd, 60)
		c.Eval(1)
		c.Probe("driver-child")
		if err != nil {
			site := panicSite(stderr.String())
			msg := firstLine(stderr.String())
			c.Fail("driver-crash", "driver:"+site, fmt.Sprintf("database/sql driver process died on the image: %v: %s", err, msg),
				map[string]interface{}{"faults": descs, "hostile": hostile, "stderr": trimStack(stderr.String())})
		}
	}
}

// rowCapFor: no cycle-free, sharing-free reading of an n-byte image has more
// than n/4 cells; nested index lookups deliver one row per index entry.
func rowCapFor(n int) int { return n/2 + 1000 }

func firstLine(s string) string {
	if i := strings.IndexByte(s, '\n'); i >= 0 {
		return s[:i]
	}
	return s
}

func trimStack(s string) string {
	lines := strings.Split(s, "\n")
	var keep []string
	for _, l := range lines {
		if strings.Contains(l, "sqlittle") || strings.HasPrefix(l, "panic") {
			keep = append(keep, strings.TrimSpace(l))
		}
		if len(keep) > 24 {
			break
		}
	}
	return strings.Join(keep, " | ")
}

func init() {
	sim.Register(&sim.Prop{
		ID: "C05", Engine: "E-PAGE", Level: "exploration", Fn: runC05, NewEnv: NewEnv,
		Runs: map[string]int{"quick": 2400, "thorough": 60000},
		Rule: "per run: a base database written by real SQLite through a drawn history (all page sizes, small ones preferred), optionally a hostile sqlite_master row written through PRAGMA writable_schema, then 0-4 storage faults (structure-aware: child/overflow pointers incl. self/cyclic/out-of-range, cell pointers, cell counts, payload/header length varints incl. 9-byte negative, serial types, page type, header bytes, truncation, zero/garbage page, misdirected and stale pages; or blind byte/bit flips), one of them possibly applied at the k-th read of the handle, and garbage/hostile journals; on that image EVERY public operation (open, tables, indexes, schema, info, defs, 8 high-level selects with Row.Scan, low-level scans/searches, and the database/sql driver in a child process); evaluations = operations executed; every run carries at least one fault (non-trivial); distinct = distinct event logs",
		Real: append([]string{"all of sqlittle on the simulated disk; database/sql driver + real file pager in a child process on the same image"}, realAll...),
		Stub: []string{"file pager replaced by pg.Mem for the in-process part"},
		Assumptions: []string{"read/byte budgets are asserted only on images of <=32 pages of <=1024 bytes, where the bound (P*U/4 cells)*(31+2P)+1000 reads exceeds any cycle-free traversal; larger images run under the panic oracle only", "a CPU loop that reads nothing is caught by the 300 s watchdog (exit 2)"},
		MaxRunSecs: 300,
		DeathSig: func(tail string, hung bool) string {
			switch {
			case hung:
				return "hang:no-progress-for-300s"
			case strings.Contains(tail, "worker memory cap"):
				return "alloc:worker-memory-cap"
			case strings.Contains(tail, "fatal error:"):
				i := strings.Index(tail, "fatal error:")
				return "fatal:" + strings.ReplaceAll(firstLine(tail[i+13:]), " ", "-")
			case strings.Contains(tail, "panic:"):
				return "crash:" + panicSite(tail)
			}
			return ""
		},
		Vacuity: func(st map[string]int64, runs int, tier string) error {
			if st["probe.corruption-detected-by-some-op"] == 0 || st["probe.budget-sensitive-image"] == 0 || st["probe.driver-child"] == 0 {
				return fmt.Errorf("reach probes at zero: %v", st)
			}
			if st["open_rejected"]*2 > int64(runs) {
				return fmt.Errorf("%d of %d images rejected at open: corruption too heavy", st["open_rejected"], runs)
			}
			return nil
		},
	})
	extraCmd("c05drv", c05drv)
}

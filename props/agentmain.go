package props

import "verif/agent"

func agentMain() int { return agent.Main() }

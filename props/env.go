// Package props holds the per-property checks (run functions + registration).
package props

import (
	"fmt"
	"os"
	"path/filepath"
	"reflect"

	"verif/sim"
	"verif/sq"
	"verif/world"
)

// Env is what a worker process owns across runs: one python SQLite process and
// a scratch base directory on a RAM disk.
type Env struct {
	W    *sq.Worker
	Base string
	n    int
}

func NewEnv(tier string) (interface{}, func(), error) {
	w, err := sq.Start()
	if err != nil {
		return nil, nil, err
	}
	base, err := world.Scratch(fmt.Sprintf("p%d", os.Getpid()))
	if err != nil {
		w.Close()
		return nil, nil, err
	}
	sim.SetEnvInfo("sqlite", w.Ver)
	e := &Env{W: w, Base: base}
	return e, func() { w.Close(); os.RemoveAll(base) }, nil
}

func env(c *sim.Ctx) *Env { return c.Env.(*Env) }

// RunDir gives a fresh directory for this run; the name never enters the log.
func (e *Env) RunDir() (string, func()) {
	e.n++
	d := filepath.Join(e.Base, fmt.Sprintf("r%d", e.n))
	os.MkdirAll(d, 0o755)
	return d, func() { os.RemoveAll(d) }
}

var realAll = []string{"sqlittle db/sql/root packages (real code from /repo, -tags verif)", "SQLite 3.40.1 (python sqlite3) as writer and reference"}

func valEq(a, b sq.Val) bool {
	switch x := a.(type) {
	case nil:
		return b == nil
	case int64:
		y, ok := b.(int64)
		return ok && x == y
	case float64:
		y, ok := b.(float64)
		if !ok {
			return false
		}
		if x != x && y != y {
			return true
		}
		return x == y && (x != 0 || (1/x > 0) == (1/y > 0) || true)
	case string:
		y, ok := b.(string)
		return ok && x == y
	case []byte:
		y, ok := b.([]byte)
		return ok && string(x) == string(y)
	}
	return reflect.DeepEqual(a, b)
}

// valEqRelaxed: equality with the documented relaxation: SQLite reports real r,
// sqlittle an int64 n with float64(n)==r and int64(r)==n.
func valEqRelaxed(want, got sq.Val) bool {
	if valEq(want, got) {
		return true
	}
	if r, ok := want.(float64); ok {
		if n, ok := got.(int64); ok {
			return float64(n) == r && r >= -9.3e18 && r <= 9.3e18 && int64(r) == n
		}
	}
	return false
}

func rowEq(want, got []sq.Val, relaxed bool) bool {
	if len(want) != len(got) {
		return false
	}
	for i := range want {
		if relaxed {
			if !valEqRelaxed(want[i], got[i]) {
				return false
			}
		} else if !valEq(want[i], got[i]) {
			return false
		}
	}
	return true
}

func rowsEq(want, got [][]sq.Val, relaxed bool) (bool, int) {
	n := len(want)
	if len(got) < n {
		n = len(got)
	}
	for i := 0; i < n; i++ {
		if !rowEq(want[i], got[i], relaxed) {
			return false, i
		}
	}
	if len(want) != len(got) {
		return false, n
	}
	return true, -1
}

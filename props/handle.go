package props

import (
	"github.com/alicebob/sqlittle"

	"verif/pg"
)

type handle struct {
	d *sqlittle.DB
	m *pg.Mem
}

package props

import (
	"verif/fold"
	"fmt"
	"math"
	"os"
	"strings"
	"unicode/utf8"

	"github.com/alicebob/sqlittle"

	"verif/gen"
	"verif/ops"
	"verif/pagewalk"
	"verif/refcmp"
	"verif/sim"
	"verif/sq"
	"verif/world"
)

func ixCols(ix *sq.Index) []refcmp.Col {
	out := make([]refcmp.Col, len(ix.XInfo))
	for i, x := range ix.XInfo {
		out[i] = refcmp.Col{Coll: x.Coll, Desc: x.Desc != 0}
	}
	return out
}

func isNoSuchIndex(err error) bool {
	return err != nil && strings.Contains(err.Error(), "no such index")
}

// ---------------------------------------------------------------- C02

func checkIndexedSelect(c *sim.Ctx, d *sqlittle.DB, t *sq.Table, ix *sq.Index, cols []string, label string) {
	r := ops.Run(d, ops.Op{Kind: "ixselect", Table: t.Name, Index: ix.Name, Cols: cols}, nil)
	c.Eval(1)
	detail := map[string]interface{}{"table": t.Name, "index": ix.Name, "columns": cols, "handle": label, "origin": ix.Origin}
	if r.Panic != nil {
		c.Fail("panic", "panic:ixselect", fmt.Sprintf("IndexedSelect(%s,%s) panicked: %v", t.Name, ix.Name, r.Panic), detail)
		return
	}
	if isNoSuchIndex(r.Err) {
		c.Inc("index_left_out", 1)
		return
	}
	if r.Err != nil {
		if len(r.Rows) > 0 {
			c.Fail("rows-and-error", "ix-rows-and-error", fmt.Sprintf("IndexedSelect(%s,%s) delivered %d rows then failed: %v", t.Name, ix.Name, len(r.Rows), r.Err), detail)
			return
		}
		c.Fail("error-on-accepted-index", "ixselect-error", fmt.Sprintf("IndexedSelect(%s,%s,%v) failed although sqlittle accepts table and index: %v", t.Name, ix.Name, cols, r.Err), detail)
		return
	}
	if !ix.HasEntries {
		c.Inc("index_without_oracle", 1)
		return
	}
	want := make([][]sq.Val, len(ix.Entries))
	for i, e := range ix.Entries {
		if e.Pos < 0 {
			c.Troublef("snapshot: index entry without table row (%s)", ix.Name)
		}
		want[i] = projectRow(t, e.Pos, cols)
	}
	if eq, at := rowsEqModDefaults(c, t, cols, want, r.Rows); !eq {
		detail["row"] = at
		detail["want"] = fmtRows(want, at)
		detail["got"] = fmtRows(r.Rows, at)
		kind := "index-order-or-values"
		if len(want) != len(r.Rows) {
			kind = "index-row-count"
		}
		feature := "plain"
		if ix.Partial != 0 {
			feature = "partial"
		}
		for _, x := range ix.XInfo {
			if x.Cid == -2 {
				feature = "expression"
			}
		}
		if t.WithoutRowid {
			feature += "-withoutrowid"
		}
		c.Fail(kind, kind+":"+feature, fmt.Sprintf("IndexedSelect(%s,%s,%v) [%s] differs from SQLite's index order at row %d: want %s got %s (%d vs %d rows)", t.Name, ix.Name, cols, label, at, fmtRows(want, at), fmtRows(r.Rows, at), len(want), len(r.Rows)), detail)
	}
	if len(ix.Entries) > 0 {
		c.Nontrivial = true
	}
	if ix.Partial != 0 {
		c.Probe("partial-index-compared")
	}
	if t.WithoutRowid {
		c.Probe("withoutrowid-secondary-index-compared")
	}
}

func validCols(s *sim.Src, t *sq.Table) []string {
	names := t.ColNames()
	n := 1 + s.Draw(len(names)+1, "ncols")
	var out []string
	for i := 0; i < n; i++ {
		if !t.WithoutRowid && s.Chance(1, 8, "rowidcol") && t.ColIndex("rowid") < 0 {
			out = append(out, "rowid")
		} else {
			out = append(out, names[s.Draw(len(names), "col")])
		}
	}
	return out
}

func c02Check(c *sim.Ctx, w *world.World) {
	s := c.Src
	fresh := openFresh(c, w.Path, cacheKnob[s.Draw(len(cacheKnob), "cache")])
	defer fresh.Close()
	for _, t := range w.Snap.Tables {
		if !t.HasRows {
			continue
		}
		if !acceptedStrict(c, fresh, t.Name) {
			c.Inc("unaccepted_definitions", 1)
			continue
		}
		c.Inc("accepted_definitions", 1)
		for _, ix := range t.Indexes {
			if t.WithoutRowid && ix.Origin == "pk" {
				continue // that is the table itself
			}
			checkIndexedSelect(c, fresh, t, ix, t.ColNames(), "fresh")
			checkIndexedSelect(c, fresh, t, ix, validCols(s, t), "repeat")
			// low level entry count
			lr := ops.Run(fresh, ops.Op{Kind: "iscan", Index: ix.Name, Lock: true}, nil)
			c.Eval(1)
			if lr.Err == nil && ix.HasEntries && len(lr.Rows) != len(ix.Entries) {
				c.Fail("index-entry-count", "iscan-count", fmt.Sprintf("Index(%s).Scan: %d entries, SQLite has %d", ix.Name, len(lr.Rows), len(ix.Entries)), nil)
			}
		}
	}
	treeProbes(c, w)
}

func indexProfile(s *sim.Src, tier string) world.Profile {
	prof := world.Profile{PageSizes: []int{512, 1024, 4096, 512, 2048, 8192, 65536, 16384, 32768}, MaxTables: 2, RowsLo: 5, RowsHi: 300, Fancy: 3, DDL: true, Vacuum: true,
		Boundary: true, LongKeys: 5, WithoutRow: 4, IndexesHi: 4, Exprs: true, LegacyFormat: true}
	if s.Chance(1, 3, "small") {
		prof.PageSizes = []int{512}
		prof.RowsHi = 700
		prof.LongKeys = 8
	}
	return prof
}

func runC02(c *sim.Ctx) {
	s := c.Src
	wr := &worldRun{prof: indexProfile(s, c.Tier), steps: 2 + s.Draw(8, "steps"), check: c02Check}
	w := wr.run(c)
	c.Sample = map[string]interface{}{"page_size": w.PageSz, "commits": w.Commits}
}

// ---------------------------------------------------------------- C03

// neighbours of a stored value: the keys for which collation, numeric
// precision or storage class decide the answer.
func neighbours(s *sim.Src, v sq.Val) []sq.Val {
	out := []sq.Val{v}
	switch x := v.(type) {
	case nil:
		out = append(out, int64(0), "")
	case int64:
		if x < math.MaxInt64 {
			out = append(out, x+1)
		}
		if x > math.MinInt64 {
			out = append(out, x-1)
		}
		out = append(out, float64(x))
		if float64(x) != math.Trunc(float64(x)) || int64(float64(x)) != x {
			out = append(out, math.Nextafter(float64(x), math.Inf(1)))
		}
		out = append(out, fmt.Sprint(x))
	case float64:
		if x == math.Trunc(x) && x >= -9.2e18 && x <= 9.2e18 {
			out = append(out, int64(x), int64(x)+1, int64(x)-1)
		}
		out = append(out, math.Nextafter(x, math.Inf(1)), math.Nextafter(x, math.Inf(-1)))
	case string:
		if i := strings.IndexByte(x, 0); i >= 0 {
			// SQLite's NOCASE stops comparing at an embedded NUL: texts of equal length that
			// agree up to the NUL are equal, otherwise the length decides
			out = append(out, x[:i+1]+"zz", x[:i+1]+"Q", x[:i+1], x+"\x00")
		}
		out = append(out, strings.ToUpper(x), strings.ToLower(x), fold.Upper(x), x+" ", x+"  ", x+"\t", x+"\n", strings.TrimRight(x, " "), x+"a", []byte(x))
		if len(x) > 0 {
			out = append(out, x[:len(x)-1])
			sw := []byte(x)
			for i, ch := range sw {
				switch {
				case ch >= 'a' && ch <= 'z':
					sw[i] = ch - 32
				case ch >= 'A' && ch <= 'Z':
					sw[i] = ch + 32
				case ch == '[':
					sw[i] = '{'
				case ch == '@':
					sw[i] = '`'
				}
			}
			out = append(out, string(sw))
		}
	case []byte:
		out = append(out, string(x), append(append([]byte{}, x...), 0))
	}
	out = append(out, nil)
	return out
}

var extraKeys = []sq.Val{int64(9007199254740993), float64(9007199254740992), float64(9223372036854775808.0), int64(math.MaxInt64), int64(math.MinInt64), float64(-9223372036854775808.0), math.Inf(1), "zzzz", []byte{}, ""}

func expectEq(t *sq.Table, ix *sq.Index, key []sq.Val, cols []string) [][]sq.Val {
	var want [][]sq.Val
	xc := ixCols(ix)
	for _, e := range ix.Entries {
		if refcmp.EqualKey(e.Vals, key, xc) {
			want = append(want, projectRow(t, e.Pos, cols))
		}
	}
	return want
}

func checkEq(c *sim.Ctx, d *sqlittle.DB, t *sq.Table, ix *sq.Index, key []sq.Val, pk bool) {
	cols := t.ColNames()
	op := ops.Op{Kind: "ixeq", Table: t.Name, Index: ix.Name, Key: sqlittle.Key(key), Cols: cols}
	if pk {
		op = ops.Op{Kind: "pk", Table: t.Name, Key: sqlittle.Key(key), Cols: cols}
	}
	r := ops.Run(d, op, nil)
	c.Eval(1)
	detail := map[string]interface{}{"op": op.String(), "index": ix.Name, "xinfo": ix.XInfo}
	if r.Panic != nil {
		c.Fail("panic", "panic:"+op.Kind, fmt.Sprintf("%s panicked: %v", op.String(), r.Panic), detail)
		return
	}
	if isNoSuchIndex(r.Err) {
		c.Inc("index_left_out", 1)
		return
	}
	if r.Err != nil {
		c.Fail("error", "eq-error:"+op.Kind, fmt.Sprintf("%s failed: %v", op.String(), r.Err), detail)
		return
	}
	want := expectEq(t, ix, key, cols)
	if eq, at := rowsEqModDefaults(c, t, cols, want, r.Rows); !eq {
		// name the deciding feature for the signature
		feature := "other"
		if len(key) > 0 {
			last := len(key) - 1
			coll := fold.Lower(ix.XInfo[last].Coll)
			switch k := key[last].(type) {
			case string:
				feature = "text-" + coll
				_ = k
			case int64, float64:
				feature = "numeric"
			case nil:
				feature = "null"
			case []byte:
				feature = "blob"
			}
			if ix.XInfo[last].Desc != 0 {
				feature += "-desc"
			}
		} else {
			feature = "empty-key"
		}
		detail["want_rows"] = len(want)
		detail["got_rows"] = len(r.Rows)
		detail["row"] = at
		detail["want"] = fmtRows(want, at)
		detail["got"] = fmtRows(r.Rows, at)
		c.Fail("eq-mismatch", "eq-mismatch:"+feature, fmt.Sprintf("%s: %d rows, SQLite's comparison rules give %d (first difference at %d: want %s got %s)", op.String(), len(r.Rows), len(want), at, fmtRows(want, at), fmtRows(r.Rows, at)), detail)
		return
	}
	if len(key) > 0 {
		last := len(key) - 1
		c.State(op.Kind, len(key), fmt.Sprintf("%T", key[last]), fold.Lower(ix.XInfo[last].Coll), ix.XInfo[last].Desc, min(len(want), 2), t.WithoutRowid)
	}
	if len(want) > 0 {
		c.Nontrivial = true
		c.Probe("eq-key-with-matches")
	} else {
		c.Probe("eq-key-without-match")
	}
	if len(want) > 1 {
		c.Probe("eq-duplicate-run")
	}
}

// crossCheckEq validates the Go-side expectation itself against SQLite for a key
// (so the oracle cannot drift): SELECT count(*) WHERE +k COLLATE c IS ?.
func crossCheckEq(c *sim.Ctx, w *world.World, t *sq.Table, ix *sq.Index, key []sq.Val) {
	if len(key) == 0 || ix.Partial != 0 {
		return
	}
	var conds []string
	var params []sq.Val
	for i, k := range key {
		x := ix.XInfo[i]
		if x.Cid < 0 || x.Name == nil {
			return
		}
		if s, ok := k.(string); ok && !utf8.ValidString(s) {
			return // cannot be bound as TEXT without CAST (which would add TEXT affinity)
		} else {
			conds = append(conds, fmt.Sprintf("+%s COLLATE %s IS ?", gen.Quote(*x.Name), x.Coll))
			params = append(params, k)
		}
	}
	rows, resp, err := w.W.Query(w.OConn, "SELECT count(*) FROM "+gen.Quote(t.Name)+" WHERE "+strings.Join(conds, " AND "), params...)
	if err != nil || resp == nil || !resp.OK {
		return
	}
	n := rows[0][0].(int64)
	want := expectEq(t, ix, key, t.ColNames())
	c.Inc("oracle_crosschecks", 1)
	if int(n) != len(want) {
		c.Troublef("oracle self-check failed: SQLite counts %d rows for key %s on %s, reference comparator %d", n, ops.FmtKey(sqlittle.Key(key)), ix.Name, len(want))
	}
}

func c03Check(c *sim.Ctx, w *world.World) {
	s := c.Src
	// only the last few commits get the full key sweep (cost)
	fresh := openFresh(c, w.Path, cacheKnob[s.Draw(len(cacheKnob), "cache")])
	defer fresh.Close()
	budget := 300
	if c.Tier == "thorough" {
		budget = 800
	}
	for _, t := range w.Snap.Tables {
		if !t.HasRows {
			continue
		}
		if !acceptedStrict(c, fresh, t.Name) {
			continue
		}
		for _, ix := range t.Indexes {
			if !ix.HasEntries {
				continue
			}
			pk := ix.Origin == "pk"
			if pk && !t.WithoutRowid {
				c.Probe("rowid-table-pk-index")
			}
			nk := ix.NKey()
			var keys [][]sq.Val
			keys = append(keys, []sq.Val{})
			pick := func() sq.Entry { return ix.Entries[s.Draw(len(ix.Entries), "entry")] }
			n := len(ix.Entries)
			if n > 0 {
				per := budget / (nk + 1)
				for m := 1; m <= nk; m++ {
					for i := 0; i < per && i < 4*n; i++ {
						var e sq.Entry
						if n <= per/4 {
							e = ix.Entries[i%n]
						} else {
							e = pick()
						}
						key := append([]sq.Val{}, e.Vals[:m]...)
						nb := neighbours(s, key[m-1])
						key[m-1] = nb[s.Draw(len(nb), "neighbour")]
						keys = append(keys, key)
					}
				}
			}
			for _, x := range extraKeys {
				keys = append(keys, []sq.Val{x})
			}
			for i, key := range keys {
				checkEq(c, fresh, t, ix, key, false)
				if pk {
					checkEq(c, fresh, t, ix, key, true)
				}
				if i%25 == 1 {
					crossCheckEq(c, w, t, ix, key)
				}
			}
		}
	}
}

func runC03(c *sim.Ctx) {
	s := c.Src
	prof := indexProfile(s, c.Tier)
	prof.Boundary = false
	prof.Vacuum = false
	wr := &worldRun{prof: prof, steps: 1 + s.Draw(5, "steps")}
	// check only after the final commit and at one drawn intermediate commit
	at := s.Draw(6, "checkat")
	n := 0
	wr.check = func(c *sim.Ctx, w *world.World) {
		n++
		if n == 3+at {
			c03Check(c, w)
		}
	}
	wr.final = c03Check
	w := wr.run(c)
	c.Sample = map[string]interface{}{"page_size": w.PageSz, "commits": w.Commits}
}

// ---------------------------------------------------------------- C04

func c04Check(c *sim.Ctx, w *world.World) {
	s := c.Src
	fresh := openFresh(c, w.Path, cacheKnob[s.Draw(len(cacheKnob), "cache")])
	defer fresh.Close()
	img, _ := os.ReadFile(w.Path)
	u := pagewalk.PageSize(img)
	for _, t := range w.Snap.Tables {
		if !t.HasRows || t.WithoutRowid || t.Rowids == nil {
			continue
		}
		if !acceptedStrict(c, fresh, t.Name) {
			continue
		}
		present := map[int64]int{}
		for i, r := range t.Rowids {
			present[r] = i
		}
		cand := map[int64]bool{0: true, -1: true, 1: true, math.MaxInt64: true, math.MinInt64: true, math.MaxInt64 - 1: true, math.MinInt64 + 1: true}
		add := func(r int64) {
			cand[r] = true
			if r < math.MaxInt64 {
				cand[r+1] = true
			}
			if r > math.MinInt64 {
				cand[r-1] = true
			}
		}
		if len(t.Rowids) <= 3000 {
			for _, r := range t.Rowids {
				add(r)
			}
		} else {
			for i := 0; i < 1500; i++ {
				add(t.Rowids[s.Draw(len(t.Rowids), "rowid")])
			}
		}
		// page boundaries (aiming only)
		nb := 0
		if u > 0 {
			for _, m := range w.Snap.Master {
				if m.Type == "table" && fold.Equal(m.Name, t.Name) && m.Rootpage > 0 {
					tr := pagewalk.Shape(img, u, m.Rootpage)
					for _, b := range tr.Boundaries {
						add(b)
						nb++
					}
					if tr.Depth >= 2 {
						c.Probe("lookup-in-multi-level-tree")
					}
					if tr.Depth >= 3 {
						c.Probe("lookup-in-depth>=3-tree")
					}
				}
			}
		}
		c.Inc("boundary_rowids_aimed", int64(nb))
		cols := t.ColNames()
		alias := -1
		// does PKSelect go by rowid? ask sqlittle's own schema
		sc := ops.Run(fresh, ops.Op{Kind: "schema", Table: t.Name, Lock: true}, nil)
		rowidPK := sc.Schema != nil && sc.Schema.RowidPK
		_ = alias
		// deterministic order
		var list []int64
		for r := range cand {
			list = append(list, r)
		}
		sortInt64(list)
		for _, rid := range list {
			pos, ok := present[rid]
			kinds := []string{"rowid", "trowid"}
			if rowidPK {
				kinds = append(kinds, "pk")
			}
			for _, kind := range kinds {
				op := ops.Op{Kind: kind, Table: t.Name, Rowid: rid, Cols: cols, Lock: kind == "trowid"}
				if kind == "pk" {
					op.Key = sqlittle.Key{rid}
				}
				r := ops.Run(fresh, op, nil)
				c.Eval(1)
				c.State(kind, ok, rid < 0, rid == 0, rid > 1<<40 || rid < -(1<<40), u)
				detail := map[string]interface{}{"op": op.String(), "present": ok}
				if r.Panic != nil {
					c.Fail("panic", "panic:"+kind, fmt.Sprintf("%s panicked: %v", op.String(), r.Panic), detail)
					continue
				}
				if r.Err != nil {
					c.Fail("lookup-error", "lookup-error:"+kind, fmt.Sprintf("%s failed: %v", op.String(), r.Err), detail)
					continue
				}
				if !ok {
					if len(r.Rows) != 0 {
						c.Fail("phantom-row", "phantom:"+kind, fmt.Sprintf("%s returned a row but SQLite has no row with that rowid", op.String()), detail)
					}
					c.Probe("absent-rowid-lookup")
					continue
				}
				if len(r.Rows) != 1 {
					c.Fail("missing-row", "missing:"+kind, fmt.Sprintf("%s returned %d rows; SQLite has the row", op.String(), len(r.Rows)), detail)
					continue
				}
				if kind == "trowid" {
					continue // raw record: presence only (values checked through the high level calls)
				}
				want := projectRow(t, pos, cols)
				if !rowEq(want, r.Rows[0], true) {
					detail["want"] = sq.FmtRow(want)
					detail["got"] = sq.FmtRow(r.Rows[0])
					sig := "lookup-values:" + kind
					for i := range want {
						if !valEqRelaxed(want[i], r.Rows[0][i]) {
							if cl := classify(t, cols[i], want[i], r.Rows[0][i]); cl == "default-affinity" || cl == "default-true-false" {
								sig = "default-literal"
							}
						}
					}
					if sig == "default-literal" {
						c.Inc("default_literal_findings_seen", 1) // C01's findings about DEFAULT literals, not this property's subject
						continue
					}
					c.Fail("wrong-row", sig, fmt.Sprintf("%s: want %s got %s", op.String(), sq.FmtRow(want), sq.FmtRow(r.Rows[0])), detail)
				}
				c.Nontrivial = true
			}
		}
	}
}

func sortInt64(a []int64) {
	// insertion into sorted order via simple sort
	for i := 1; i < len(a); i++ {
		for j := i; j > 0 && a[j] < a[j-1]; j-- {
			a[j], a[j-1] = a[j-1], a[j]
		}
	}
}

func runC04(c *sim.Ctx) {
	s := c.Src
	prof := world.Profile{PageSizes: []int{512, 1024, 512, 4096, 2048, 65536}, MaxTables: 2, RowsLo: 1, RowsHi: 900, Fancy: 2, DDL: true, Vacuum: true,
		Boundary: s.Chance(1, 3, "boundary"), LongKeys: 2, WithoutRow: 1, IndexesHi: 1}
	if c.Tier == "thorough" && s.Chance(1, 40, "deep") {
		prof.PageSizes = []int{512}
		prof.RowsLo, prof.RowsHi = 20000, 26000
		prof.MaxTables = 1
		prof.IndexesHi = 0
	}
	wr := &worldRun{prof: prof, steps: 2 + s.Draw(8, "steps")}
	n := 0
	at := s.Draw(5, "checkat")
	wr.check = func(c *sim.Ctx, w *world.World) {
		n++
		if n == 2+at {
			c04Check(c, w)
		}
	}
	wr.final = c04Check
	w := wr.run(c)
	c.Sample = map[string]interface{}{"page_size": w.PageSz, "commits": w.Commits}
}

func init() {
	sim.Register(&sim.Prop{
		ID: "C02", Engine: "E-WORLD", Level: "exploration", Fn: runC02, NewEnv: NewEnv,
		Runs: map[string]int{"quick": 128, "thorough": 5000},
		Rule: "per run: seeded writer history (page sizes 512..65536, ~100-byte keys for deep index trees, NULLs and mixed storage classes, COLLATE/DESC per column, UNIQUE, partial and expression indexes, automatic indexes, WITHOUT ROWID tables with secondary indexes, index payloads on overflow pages); after EVERY commit, for every index SQLite lists: IndexedSelect with all columns and with a drawn column list vs `SELECT .. FROM t [WHERE partial] ORDER BY <every index_xinfo column with its collation and direction>` computed by SQLite; low-level Index.Scan entry count; evaluations = index reads compared; non-trivial run = compared a non-empty index; distinct = distinct event logs",
		Real: append([]string{"unix file pager on real files"}, realAll...), Stub: []string{},
		Assumptions: []string{"fault-free configuration; an index sqlittle leaves out ('no such index') is accepted and counted (C10 allows it)", "expression/partial index oracles need the generator's knowledge of the expression text (hints), checked by SQLite itself when it evaluates the ORDER BY"},
		MaxRunSecs: 600,
		Vacuity: func(st map[string]int64, runs int, tier string) error {
			for _, p := range []string{"index-tree-depth>=3", "partial-index-compared", "withoutrowid-secondary-index-compared"} {
				if st["probe."+p] == 0 {
					return fmt.Errorf("reach probe %q is zero", p)
				}
			}
			return nil
		},
	})
	sim.Register(&sim.Prop{
		ID: "C03", Engine: "E-WORLD", Level: "exploration", Fn: runC03, NewEnv: NewEnv,
		Runs: map[string]int{"quick": 320, "thorough": 5000},
		Rule: "per run: seeded writer history as for C02; at the final and one intermediate commit, for every index and every primary key: keys for every prefix length 0..n built from stored entries and their neighbours (+-1, same number as int and as real, next float, 2^53+-1, 2^63, case-swapped, trailing space/tab/newline, prefix, other storage class, NULL) -> IndexedSelectEq / PKSelect vs the entries SQLite's rules select (independent comparator validated against SQLite in setup, cross-checked in-run against `WHERE +col COLLATE c IS ?`); evaluations = key lookups; non-trivial run = some key matched rows; distinct = distinct event logs",
		Real: append([]string{"unix file pager on real files"}, realAll...), Stub: []string{},
		Assumptions: []string{"expected rows are computed by the reference comparator (refcmp) over SQLite's own index entries; refcmp is validated against SQLite by `simv refcheck` in setup and by in-run count cross-checks"},
		MaxRunSecs: 600,
		Vacuity: func(st map[string]int64, runs int, tier string) error {
			for _, p := range []string{"eq-key-with-matches", "eq-key-without-match", "eq-duplicate-run", "rowid-table-pk-index"} {
				if st["probe."+p] == 0 {
					return fmt.Errorf("reach probe %q is zero", p)
				}
			}
			if st["oracle_crosschecks"] == 0 {
				return fmt.Errorf("no oracle cross-checks ran")
			}
			return nil
		},
	})
	sim.Register(&sim.Prop{
		ID: "C04", Engine: "E-WORLD", Level: "exploration", Fn: runC04, NewEnv: NewEnv,
		Runs: map[string]int{"quick": 160, "thorough": 5000},
		Rule: "per run: seeded writer history (small pages for deep table trees, negative/zero/extreme rowids, deletes, vacuum); at the final and one intermediate commit, for every rowid table: SelectRowid, PKSelect (rowid-alias tables) and low-level Table.Rowid for every present rowid and both neighbours (exhaustive <=3000 rows), the separator keys of every interior page and first/last key of every leaf (page walker, aiming only), 0, +-1, int64 min/max; present => the row SQLite reports, absent => no row and no error; evaluations = lookups; non-trivial = found a present row; distinct = distinct event logs",
		Real: append([]string{"unix file pager on real files"}, realAll...), Stub: []string{},
		Assumptions: []string{"fault-free configuration"},
		MaxRunSecs: 600,
		Vacuity: func(st map[string]int64, runs int, tier string) error {
			for _, p := range []string{"lookup-in-multi-level-tree", "absent-rowid-lookup", "lookup-in-depth>=3-tree"} {
				if st["probe."+p] == 0 {
					return fmt.Errorf("reach probe %q is zero", p)
				}
			}
			return nil
		},
	})
}

package props

import (
	"github.com/alicebob/sqlittle"
	sdb "github.com/alicebob/sqlittle/db"

	"verif/gen"
	"verif/ops"
	"verif/sim"
	"verif/sq"
)

// readFamily lists one of each read operation per table/index of the snapshot,
// with keys drawn from stored values.
func readFamily(s *sim.Src, snap *sq.Snapshot, lowLevel bool) []ops.Op {
	var out []ops.Op
	for _, t := range snap.Tables {
		cols := t.ColNames()
		out = append(out, ops.Op{Kind: "select", Table: t.Name, Cols: cols})
		out = append(out, ops.Op{Kind: "columns", Table: t.Name})
		if !t.WithoutRowid {
			rid := int64(1)
			if len(t.Rowids) > 0 {
				rid = t.Rowids[s.Draw(len(t.Rowids), "rowid")]
			}
			out = append(out, ops.Op{Kind: "rowid", Table: t.Name, Rowid: rid, Cols: cols})
		}
		// pk select with a stored key
		if len(t.Rows) > 0 {
			var key sqlittle.Key
			row := t.Rows[s.Draw(len(t.Rows), "pkrow")]
			npk := 0
			for _, c := range t.Columns {
				if c.PK > npk {
					npk = c.PK
				}
			}
			for k := 1; k <= npk; k++ {
				for i, c := range t.Columns {
					if c.PK == k {
						key = append(key, row[i])
					}
				}
			}
			if len(key) > 0 {
				out = append(out, ops.Op{Kind: "pk", Table: t.Name, Key: key, Cols: cols})
			}
		}
		for _, ix := range t.Indexes {
			out = append(out, ops.Op{Kind: "ixselect", Table: t.Name, Index: ix.Name, Cols: cols})
			var key sqlittle.Key
			if ix.HasEntries && len(ix.Entries) > 0 {
				e := ix.Entries[s.Draw(len(ix.Entries), "ixent")]
				nk := 1 + s.Draw(ix.NKey(), "nkey")
				for i := 0; i < nk; i++ {
					key = append(key, e.Vals[i])
				}
			} else {
				key = sqlittle.Key{gen.Value(s, gen.DefaultMix)}
			}
			out = append(out, ops.Op{Kind: "ixeq", Table: t.Name, Index: ix.Name, Key: key, Cols: cols})
			if lowLevel {
				out = append(out, ops.Op{Kind: "iscan", Index: ix.Name, Lock: true})
				var k sdb.Key
				for i, v := range key {
					k = append(k, sdb.KeyCol{V: v, Desc: ix.XInfo[i].Desc != 0, Collate: lowerColl(ix.XInfo[i].Coll)})
				}
				out = append(out, ops.Op{Kind: "iscanmin", Index: ix.Name, From: k, Lock: true})
				out = append(out, ops.Op{Kind: "iscaneq", Index: ix.Name, From: k, Lock: true})
			}
		}
		if lowLevel {
			if t.WithoutRowid {
				out = append(out, ops.Op{Kind: "iscan", Table: t.Name, Lock: true})
			} else {
				out = append(out, ops.Op{Kind: "tscan", Table: t.Name, Lock: true})
			}
			out = append(out, ops.Op{Kind: "schema", Table: t.Name, Lock: true})
		}
	}
	if lowLevel {
		out = append(out, ops.Op{Kind: "tables", Lock: true}, ops.Op{Kind: "indexes", Lock: true})
	}
	return out
}

func lowerColl(c string) string {
	switch c {
	case "BINARY", "binary":
		return ""
	case "NOCASE":
		return "nocase"
	case "RTRIM":
		return "rtrim"
	}
	b := []byte(c)
	for i := range b {
		if b[i] >= 'A' && b[i] <= 'Z' {
			b[i] += 32
		}
	}
	return string(b)
}

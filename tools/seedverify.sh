#!/bin/bash
# tools/seedverify.sh <dir with patch.diff README.md demo/> [scratch worktree]
# Confirms a seeded change independently: demo passes on the unchanged tree, the change
# applies, builds, leaves the pinned suite as it is (only db.TestIOZero fails), and the
# demo fails with it. Works in a scratch worktree of /repo's HEAD; removes what it adds.
set -u
src="$(cd "$1" && pwd)"; name="$(basename "$src")"
wt="${2:-/tmp/sv-wt}"
export GOFLAGS=-mod=mod GOPROXY=off GOSUMDB=off GOTOOLCHAIN=local
if [ ! -d "$wt" ]; then git -C /repo worktree add --detach "$wt" HEAD >/dev/null 2>&1 || { echo "cannot create $wt"; exit 2; }; fi
cd "$wt" || exit 2
git checkout -q --detach "$(git -C /repo rev-parse HEAD)" 2>/dev/null
git checkout -- . ; git clean -fdq
mkdir -p out && cp -r "$src" out/ && [ -f "$src/../go.mod" ] && cp "$src/../go.mod" out/
# demo commands: cp lines + the go test -run line from the README
mapfile -t cmds < <(grep -E '^\s*\$?\s*(cp out/|go test .*-run )' "$src/README.md" | sed -E 's/^\s*\$?\s*//; s/\s+#.*$//' | awk '!seen[$0]++')
[ ${#cmds[@]} -eq 0 ] && { echo "$name: no demo command found in README"; exit 2; }
rundemo() { local rc=0; for c in "${cmds[@]}"; do case "$c" in cp*) eval "$c" || rc=9;; go\ test*) eval "timeout 600 $c" > "$1" 2>&1 || rc=1;; esac; done; return $rc; }
rundemo /dev/shm/sv-clean.log; clean=$?
# drop copied demo files, apply the change
git clean -fdq -e out; git checkout -- .
if ! git apply "$src/patch.diff" 2>/dev/shm/sv-apply.log && ! git apply --3way "$src/patch.diff" 2>>/dev/shm/sv-apply.log; then echo "$name: PATCH-DOES-NOT-APPLY"; cat /dev/shm/sv-apply.log | head -5; git checkout -- .; git clean -fdq; exit 3; fi
git reset -q 2>/dev/null
files=$(git diff --name-only | tr '\n' ' ')
if ! go build ./... 2>/dev/shm/sv-build.log; then echo "$name: BUILD-FAILS"; head -5 /dev/shm/sv-build.log; git checkout -- .; git clean -fdq; exit 3; fi
suite=$(go test -vet=off -count=1 ./... 2>&1 | grep -E "^--- FAIL|^FAIL.*build failed|panic:" | grep -v "TestIOZero" | tr '\n' ';')
rundemo /dev/shm/sv-mut.log; mut=$?
git checkout -- . ; git clean -fdq
ok=OK; [ $clean -ne 0 ] && ok=BAD-demo-fails-on-clean; [ $mut -eq 0 ] && ok=BAD-demo-passes-with-change; [ -n "$suite" ] && ok="BAD-suite:$suite"
echo "$name: $ok clean_exit=$clean mutant_exit=$mut files=[$files] demo=[${cmds[*]: -1}]"

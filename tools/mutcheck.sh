#!/bin/bash
# tools/mutcheck.sh <patch.diff> <tier> <property>...
# Applies a seeded change to /repo, confirms the pinned suite still passes, runs
# the given checks, and always restores /repo. Prints one line per check.
set -u
patch="$1"; tier="$2"; shift 2
# MUT_REPO: run against another checkout of the repository (regression sweeps in the
# background); default is /repo itself, as for the registered checks
REPO="${MUT_REPO:-/repo}"
[ "$REPO" != "/repo" ] && export VERIF_REPO="$REPO"
cd /verif
if [ -n "$(git -C "$REPO" status --porcelain)" ]; then echo "mutcheck: $REPO is not clean" >&2; exit 2; fi
# evidence files must only ever come from the unchanged tree
rm -rf /dev/shm/evid.bak.$$ && cp -r evidence /dev/shm/evid.bak.$$ 2>/dev/null
trap 'git -C "$REPO" checkout -- . ; git -C "$REPO" clean -fdq -- . >/dev/null 2>&1; rm -rf evidence; cp -r /dev/shm/evid.bak.$$ evidence 2>/dev/null; rm -rf /dev/shm/evid.bak.$$' EXIT
if ! git -C "$REPO" apply "$patch"; then echo "mutcheck: patch does not apply"; exit 2; fi
export GOFLAGS=-mod=mod GOPROXY=off GOSUMDB=off GOTOOLCHAIN=local
fails=$(cd "$REPO" && go test -vet=off -count=1 ./... 2>&1 | grep -E "^--- FAIL" | grep -v TestIOZero)
if ! (cd "$REPO" && go build ./... 2>/dev/null); then echo "SUITE build-fails"; exit 3; fi
if [ -n "$fails" ]; then echo "SUITE fails: $fails"; else echo "SUITE passes (except TestIOZero)"; fi
for p in "$@"; do
  out=$(timeout 1500 ./run "$p" "$tier" 2>&1); code=$?
  sigs=$(echo "$out" | grep -E "^  signature:" | sed 's/  signature: //' | tr '\n' ' ')
  echo "CHECK $p $tier exit=$code ${sigs}"
  echo "$out" | grep -E "HARNESS-TROUBLE" | head -2
done

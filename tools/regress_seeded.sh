#!/bin/bash
# tools/regress_seeded.sh [tier]: every seeded change against the check(s) of its property,
# on a scratch checkout (MUT_REPO), from a copy of /verif. One line per change.
tier="${1:-quick}"
rm -rf /dev/shm/vreg && rsync -a --exclude .git --exclude replays /verif/ /dev/shm/vreg/ && sed -i 's#^cd /verif#cd /dev/shm/vreg#' /dev/shm/vreg/tools/mutcheck.sh
export MUT_REPO=/tmp/repo-regress
git -C $MUT_REPO checkout -q --detach $(git -C /repo rev-parse HEAD)
for d in /verif/seeded/*/; do
  id=$(basename $d); prop=$(python3 -c "import json;print(json.load(open('$d/meta.json'))['property'])")
  res=$(/dev/shm/vreg/tools/mutcheck.sh $d/patch.diff $tier $prop 2>&1 | grep -E "^CHECK|does not apply|HARNESS" | tr '\n' ' ' | cut -c1-300)
  echo "$id :: $res"
done
echo REGRESS-DONE

#!/bin/bash
# tools/sweep_seeded.sh <tier> <id>...  : each named seeded change against the check of its
# property (or "id:Cxx,Cyy" to name checks), on a scratch checkout of /repo's HEAD, from a
# copy of /verif under /dev/shm, so that neither /repo nor /verif is touched.
tier="$1"; shift
V=/dev/shm/vsweep${SWEEP_TAG:-}
rm -rf $V && rsync -a --exclude .git --exclude replays --exclude .bin /verif/ $V/ && sed -i "s#^cd /verif#cd $V#" $V/tools/mutcheck.sh
export MUT_REPO=/tmp/repo-sweep${SWEEP_TAG:-}
[ -d $MUT_REPO ] || git -C /repo worktree add --detach $MUT_REPO HEAD >/dev/null 2>&1
git -C $MUT_REPO checkout -q --detach $(git -C /repo rev-parse HEAD); git -C $MUT_REPO checkout -- .; git -C $MUT_REPO clean -fdq
for spec in "$@"; do
  id="${spec%%:*}"; props=""; [ "$spec" != "$id" ] && props="${spec#*:}"
  [ -z "$props" ] && props="${id%%-*}"
  res=$($V/tools/mutcheck.sh /verif/seeded/$id/patch.diff $tier ${props//,/ } 2>&1 | grep -E "^CHECK|does not apply|HARNESS|SUITE fails|build-fails" | tr '\n' ' ' | cut -c1-400)
  echo "$id :: $res"
done
echo SWEEP-DONE

#!/usr/bin/python3
"""Runs the target transactions of an E-CRASH scenario; executed under strace.
argv: dbpath scenario.json   (scenario: {"pragmas": [...], "txns": [[sql, ...], ...]})"""
import sys, json, sqlite3, os

def main():
    path, scen = sys.argv[1], json.load(open(sys.argv[2]))
    os.write(2, b"RECORDER-START\n")
    c = sqlite3.connect(path, timeout=0, isolation_level=None, cached_statements=0)
    for p in scen["pragmas"]:
        c.execute(p).fetchall()
    for txn in scen["txns"]:
        for sql in txn:
            try:
                c.execute(sql).fetchall()
            except sqlite3.Error as e:
                os.write(2, ("RECORDER-SQLERR %s: %s\n" % (sql[:60], e)).encode())
    c.close()
    os.write(2, b"RECORDER-END\n")

main()

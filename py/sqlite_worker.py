#!/usr/bin/python3
"""Line-JSON server around the stdlib sqlite3 module (real SQLite 3.40.x).

It is both the environment's *writer* (connections parked in arbitrary lock
states, one SQL statement per step) and the *reference model* (snapshots of
content and schema).  Never blocks: timeout=0, one request -> one response.

Value encoding (exact, no float/utf8 loss):
  null -> ["n"]   int -> ["i","<decimal>"]   real -> ["r","<16 hex of IEEE bits>"]
  text -> ["t","<hex of bytes>"]   blob -> ["b","<hex>"]
"""
import sys, json, sqlite3, struct, os

conns = {}


def enc(v, typ=None):
    if v is None:
        return ["n"]
    if isinstance(v, int):
        return ["i", str(v)]
    if isinstance(v, float):
        return ["r", struct.pack(">d", v).hex()]
    if isinstance(v, (bytes, bytearray, memoryview)):
        b = bytes(v)
        if typ == "text":
            return ["t", b.hex()]
        if typ == "blob":
            return ["b", b.hex()]
        return ["b", b.hex()]
    if isinstance(v, str):
        return ["t", v.encode("utf-8", "surrogateescape").hex()]
    raise TypeError(type(v))


def dec(v):
    k = v[0]
    if k == "n":
        return None
    if k == "i":
        return int(v[1])
    if k == "r":
        return struct.unpack(">d", bytes.fromhex(v[1]))[0]
    if k == "t":
        b = bytes.fromhex(v[1])
        try:
            return b.decode("utf-8")
        except UnicodeDecodeError:
            # caller must use CAST(? AS TEXT) for these
            return b
    if k == "b":
        return bytes.fromhex(v[1])
    raise ValueError(k)


def qi(name):
    return '"' + name.replace('"', '""') + '"'


def errinfo(e):
    code = getattr(e, "sqlite_errorcode", None)
    name = getattr(e, "sqlite_errorname", None)
    return {"ok": False, "err": str(e), "code": code, "name": name, "cls": type(e).__name__}


def typed_rows(cur, ncols):
    """rows of a query whose select list is c1..cn, typeof(c1)..typeof(cn)"""
    out = []
    for row in cur:
        vals = []
        for i in range(ncols):
            t = row[ncols + i]
            if isinstance(t, bytes):
                t = t.decode()
            vals.append(enc(row[i], t))
        out.append(vals)
    return out


def do_open(req):
    cid = req["id"]
    if cid in conns:
        conns[cid].close()
    uri = req.get("uri", False)
    c = sqlite3.connect(req["path"], timeout=0, isolation_level=None, uri=uri,
                        check_same_thread=False, cached_statements=0)
    c.text_factory = bytes
    # an application-defined collation (reverse code point order): files that use one are
    # legal SQLite databases which sqlittle cannot order - it must say so, not guess
    c.create_collation("mycoll", lambda a, b: (a < b) - (a > b))
    conns[cid] = c
    for p in (req.get("pragmas") or []):
        c.execute(p).fetchall()
    return {"ok": True}


def do_close(req):
    c = conns.pop(req["id"], None)
    if c is not None:
        c.close()
    return {"ok": True}


def run_stmt(c, sql, params, want_rows):
    cur = c.execute(sql, [dec(p) for p in params])
    rows = None
    if want_rows:
        rows = [[enc(v) for v in r] for r in cur.fetchall()]
    else:
        cur.fetchall()
    return rows, cur.rowcount


def do_exec(req):
    c = conns[req["id"]]
    try:
        rows, rc = run_stmt(c, req["sql"], req.get("params", []), req.get("rows", False))
    except sqlite3.Error as e:
        r = errinfo(e)
        r["intx"] = c.in_transaction
        return r
    r = {"ok": True, "rowcount": rc, "intx": c.in_transaction}
    if rows is not None:
        r["rows"] = rows
    return r


def do_script(req):
    """a list of [sql, params] run in order; stops at the first error"""
    c = conns[req["id"]]
    n = 0
    for st in req["stmts"]:
        try:
            run_stmt(c, st[0], st[1] if len(st) > 1 else [], False)
        except sqlite3.Error as e:
            r = errinfo(e)
            r["done"] = n
            r["intx"] = c.in_transaction
            return r
        n += 1
    return {"ok": True, "done": n, "intx": c.in_transaction}


def do_many(req):
    c = conns[req["id"]]
    try:
        c.executemany(req["sql"], [[dec(p) for p in ps] for ps in req["rows"]])
    except sqlite3.Error as e:
        r = errinfo(e)
        r["intx"] = c.in_transaction
        return r
    return {"ok": True, "intx": c.in_transaction}


def do_typed(req):
    """query with explicit column expressions; returns storage-class exact values"""
    c = conns[req["id"]]
    exprs = req["exprs"]
    sel = ", ".join(exprs + ["typeof(%s)" % e for e in exprs])
    sql = "SELECT %s %s" % (sel, req["tail"])
    try:
        cur = c.execute(sql, [dec(p) for p in req.get("params", [])])
        return {"ok": True, "rows": typed_rows(cur, len(exprs))}
    except sqlite3.Error as e:
        return errinfo(e)


def s(x):
    if isinstance(x, bytes):
        return x.decode("utf-8", "surrogateescape")
    return x


def snapshot_table(c, tname, wr, hints):
    t = {"name": tname, "without_rowid": bool(wr)}
    cols = []
    for r in c.execute("PRAGMA table_xinfo(%s)" % qi(tname)).fetchall():
        cols.append({"cid": r[0], "name": s(r[1]), "type": s(r[2]), "notnull": r[3],
                     "dflt": None if r[4] is None else s(r[4]), "pk": r[5], "hidden": r[6]})
    t["columns"] = cols
    vis = [cdef for cdef in cols if cdef["hidden"] == 0]
    colexprs = [qi(cdef["name"]) for cdef in vis]
    # indexes
    idxs = []
    pkidx = None
    for r in c.execute("PRAGMA index_list(%s)" % qi(tname)).fetchall():
        ix = {"name": s(r[1]), "unique": r[2], "origin": s(r[3]), "partial": r[4]}
        xi = []
        for x in c.execute("PRAGMA index_xinfo(%s)" % qi(ix["name"])).fetchall():
            xi.append({"seqno": x[0], "cid": x[1], "name": None if x[2] is None else s(x[2]),
                       "desc": x[3], "coll": s(x[4]), "key": x[5]})
        ix["xinfo"] = xi
        idxs.append(ix)
        if ix["origin"] == "pk":
            pkidx = ix
    t["indexes"] = idxs

    # rows, in table order
    if wr:
        order = []
        for x in pkidx["xinfo"]:
            if x["key"]:
                order.append("%s COLLATE %s %s" % (qi(x["name"]), x["coll"], "DESC" if x["desc"] else "ASC"))
        sel = colexprs + ["typeof(%s)" % e for e in colexprs]
        cur = c.execute("SELECT %s FROM %s ORDER BY %s" % (", ".join(sel), qi(tname), ", ".join(order)))
        rows = typed_rows(cur, len(colexprs))
        t["rows"] = rows
        t["rowids"] = None
        pkcols = [x["name"] for x in pkidx["xinfo"] if x["key"]]
    else:
        # the real rowid: pick an alias not shadowed by a column
        names = set(cdef["name"].lower() for cdef in cols)
        ralias = None
        for a in ("rowid", "_rowid_", "oid"):
            if a not in names:
                ralias = a
                break
        t["rowid_alias"] = ralias
        if ralias is None:
            t["rows"] = None
            t["rowids"] = None
            return t
        sel = colexprs + ["typeof(%s)" % e for e in colexprs] + [ralias]
        cur = c.execute("SELECT %s FROM %s ORDER BY %s" % (", ".join(sel), qi(tname), ralias))
        rows, rowids = [], []
        n = len(colexprs)
        for row in cur:
            vals = []
            for i in range(n):
                ty = row[n + i]
                if isinstance(ty, bytes):
                    ty = ty.decode()
                vals.append(enc(row[i], ty))
            rows.append(vals)
            rowids.append(str(row[2 * n]))
        t["rows"] = rows
        t["rowids"] = rowids

    # index entries in index order: (row position, key values)
    for ix in idxs:
        h = hints.get(ix["name"].lower(), {})
        keyexprs = []
        order = []
        ok = True
        for x in ix["xinfo"]:
            if x["cid"] == -2:
                e = h.get("exprs", {}).get(str(x["seqno"]))
                if e is None:
                    ok = False
                    break
                ex = "(%s)" % e
            elif x["cid"] == -1:
                ex = t.get("rowid_alias") or "rowid"
            else:
                ex = qi(x["name"])
            if x["key"]:
                keyexprs.append(ex)
            order.append("%s COLLATE %s %s" % (ex, x["coll"], "DESC" if x["desc"] else "ASC"))
        if ix["partial"] and "where" not in h:
            ok = False
        if not ok or t["rows"] is None:
            ix["entries"] = None
            continue
        allx = []
        for x in ix["xinfo"]:
            if x["cid"] == -2:
                allx.append("(%s)" % h["exprs"][str(x["seqno"])])
            elif x["cid"] == -1:
                allx.append(t.get("rowid_alias") or "rowid")
            else:
                allx.append(qi(x["name"]))
        where = ""
        if ix["partial"]:
            where = "WHERE " + h["where"]
        if wr:
            ident = [qi(n) for n in pkcols]
        else:
            ident = [t["rowid_alias"]]
        sel = allx + ["typeof(%s)" % e for e in allx] + ident + ["typeof(%s)" % e for e in ident]
        sql = "SELECT %s FROM %s NOT INDEXED %s ORDER BY %s" % (", ".join(sel), qi(tname), where, ", ".join(order))
        try:
            cur = c.execute(sql)
        except sqlite3.Error as e:
            ix["entries"] = None
            ix["entries_err"] = str(e)
            continue
        # map identity -> row position
        if wr:
            pos = {}
            pkpos = [i for i, cdef in enumerate(vis) if cdef["name"] in pkcols]
            pkorder = [next(i for i, cdef in enumerate(vis) if cdef["name"] == n) for n in pkcols]
            for rp, row in enumerate(t["rows"]):
                pos[json.dumps([row[i] for i in pkorder])] = rp
        else:
            pos = {rid: rp for rp, rid in enumerate(t["rowids"])}
        ents = []
        ids1 = []
        na = len(allx)
        ni = len(ident)
        for row in cur:
            keyvals = []
            for i in range(na):
                ty = row[na + i]
                if isinstance(ty, bytes):
                    ty = ty.decode()
                keyvals.append(enc(row[i], ty))
            if wr:
                idv = []
                for i in range(ni):
                    ty = row[2 * na + ni + i]
                    if isinstance(ty, bytes):
                        ty = ty.decode()
                    idv.append(enc(row[2 * na + i], ty))
                rp = pos.get(json.dumps(idv), -1)
            else:
                rp = pos.get(str(row[2 * na]), -1)
            ents.append([rp, keyvals])
            ids1.append(tuple(row[2 * na:2 * na + ni]))
        ix["entries"] = ents
        # SQLite keeps an integer in a REAL column as an integer inside index records; two
        # such integers beyond 2^53 that read back as the same real are ordered by their
        # integer value in the index and by rowid in ORDER BY. Where SQLite's two answers
        # differ there is no single expected order: no oracle for this index in this snapshot.
        try:
            sql2 = "SELECT %s FROM %s INDEXED BY %s %s ORDER BY %s" % (", ".join(ident), qi(tname), qi(ix["name"]), where, ", ".join(order))
            ids2 = [tuple(r) for r in c.execute(sql2)]
            if ids2 != ids1:
                ix["entries"] = None
                ix["entries_err"] = "SQLite's index order differs from its own ORDER BY order"
        except sqlite3.Error:
            pass
    return t


def do_snapshot(req):
    c = conns[req["id"]]
    hints = req.get("hints", {})
    try:
        out = {"ok": True}
        hdr = {}
        for p in ("page_size", "page_count", "freelist_count", "schema_version", "auto_vacuum",
                  "journal_mode", "encoding", "user_version"):
            v = c.execute("PRAGMA " + p).fetchone()[0]
            hdr[p] = s(v)
        out["pragmas"] = hdr
        master = []
        for r in c.execute("SELECT type, name, tbl_name, rootpage, sql FROM sqlite_master ORDER BY rowid").fetchall():
            master.append({"type": s(r[0]), "name": s(r[1]), "tbl_name": s(r[2]), "rootpage": r[3],
                           "sql": None if r[4] is None else s(r[4])})
        out["master"] = master
        tl = {}
        for r in c.execute("PRAGMA table_list").fetchall():
            if s(r[0]) == "main":
                tl[s(r[1])] = {"type": s(r[2]), "ncol": r[3], "wr": r[4], "strict": r[5]}
        tables = []
        for m in master:
            if m["type"] != "table":
                continue
            if m["name"].startswith("sqlite_"):
                continue
            info = tl.get(m["name"], {"wr": 0})
            if info.get("type") not in (None, "table", "shadow"):
                continue  # (shadow tables of virtual tables are ordinary b-tree tables)
            tables.append(snapshot_table(c, m["name"], info["wr"], hints))
        out["tables"] = tables
        if req.get("dbstat"):
            st = {}
            try:
                for r in c.execute("SELECT name, count(*), sum(pagetype='overflow'), sum(pagetype='internal'), max(length(path)-length(replace(path,'/',''))) FROM dbstat GROUP BY name").fetchall():
                    st[s(r[0])] = {"pages": r[1], "overflow": r[2], "internal": r[3], "depth": r[4]}
            except sqlite3.Error as e:
                st = {"_err": str(e)}
            out["dbstat"] = st
        return out
    except sqlite3.Error as e:
        return errinfo(e)


OPS = {
    "open": do_open, "close": do_close, "exec": do_exec, "script": do_script,
    "many": do_many, "typed": do_typed, "snapshot": do_snapshot,
    "ping": lambda r: {"ok": True, "sqlite": sqlite3.sqlite_version, "pid": os.getpid()},
}


def main():
    out = sys.stdout
    for line in sys.stdin:
        line = line.strip()
        if not line:
            continue
        try:
            req = json.loads(line)
            if req["op"] == "quit":
                break
            resp = OPS[req["op"]](req)
        except Exception as e:  # harness trouble, reported as such
            resp = {"ok": False, "err": "worker-exception: %r" % (e,), "fatal": True}
        out.write(json.dumps(resp, separators=(",", ":")))
        out.write("\n")
        out.flush()
    for c in list(conns.values()):
        try:
            c.close()
        except Exception:
            pass


if __name__ == "__main__":
    main()
